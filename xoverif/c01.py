"""C01: values written at construction are read back exactly (DESIGN.md 2/C01)."""
import hashlib

import numpy as np

from . import common, cons, place, universe, xt

PID = "C01"

PL_ALL = ["default", "ctx", "cap0", "hole", "dirtyhole", "explicit", "explicit-i8", "explicit-al16", "al16-hole", "al64", "al2", "ba-hole", "ba-cap0", "grown", "dirtybig"]
PL_DEEP = ["ctx", "dirtyhole", "grown", "ba-hole"]


def places_for(tier):
    def f(t, form):
        if form == "py":
            return PL_ALL if (xt.depth(t) <= 1 or tier == "thorough") else PL_DEEP
        if form in cons.ND:
            return ["cap0", "dirtyhole"] if tier == "quick" else ["cap0", "dirtyhole", "ba-hole", "al64"]
        if form == "xobj-same":
            return ["cap0", "ba-cap0"]
        if form in ("xobj-other", "xobj-ctx", "xobj-kind", "xobj-view", "xobj-twin"):
            return ["cap0", "dirtyhole"]
        if form in ("xobj-nested", "xobj-nested-view"):
            return ["dirtyhole", "cap0"]
        if form in ("xobj-slack", "xobj-capslack", "xobj-nested-lastslack"):
            return ["dirtybig", "cap0"]
        if form in ("ref-same", "ref-foreign"):
            return ["cap0", "ba-cap0"]
        if form in ("cap", "cap-np"):
            return ["cap0", "dirtybig", "dirtybig2", "default"]
        return ["ctx"]

    return f


FORMS = cons.PY_FORMS + cons.ND + cons.XOBJ + cons.CAP + cons.LEN


def describe(tier):
    return dict(
        rule="case system: every type of the bounded universe x value alphabet (ramp, extreme, minimal) x every applicable input form "
        "(plain data, 5 ndarray layouts, xobject from same/other buffer/other context/other buffer kind, nested xobjects, string capacity) "
        "x placement alphabet; array classes made by indexing (ItemType[shape]) and, for a sub-universe, DECLARED as classes with _order absent / 'C' / 'F' / tuple; one transition = the public constructor; oracle = full read-back through every accessor "
        "(attributes, every index tuple, nested handles, to_nplike/to_nparray) equals the value tree. A case is distinct/non-trivial "
        "when (type, resulting object bytes) is new.",
        bounds=dict(universe="U1 (638 arrays, structs of 1-%d leaf fields) + U2 + U3, see xoverif/universe.py" % (2 if tier == "quick" else 3),
                    values=cons.VMODES, forms=FORMS, placements=PL_ALL + ["dirtybig2"], max_rank=3, extents="static 2,3,4; dynamic 0..4", nesting="<= 4"),
        assumptions=["values outside the enumerated alphabet are not covered", "nested lists cannot express a zero extent followed by further axes; those values use the ndarray form"],
        must_fire=["construct"],
    )


def shards(tier, seed):
    ts = universe.universe(tier, "all+3" if tier == "thorough" else "all")
    ts = ts[seed % len(ts):] + ts[: seed % len(ts)]
    out = cons.chunk(ts, 64 if tier == "quick" else 192)
    # the same array types DECLARED as classes (class statement with _itemtype/_shape/_order "C", "F", tuple or absent)
    # instead of made by indexing: all level-1 arrays + the level-2/3 types that contain arrays (quick: a third of them)
    decl = [t for t in ts if any(x[0] == "A" for x in xt.subtypes(t))]
    if tier == "quick":
        decl = [t for t in decl if t[0] == "A" and t[1][0] in ("S", "Str")] + [t for t in decl if not (t[0] == "A" and t[1][0] in ("S", "Str"))][::3]
    out += [("subclass", c) for c in cons.chunk(decl, 16 if tier == "quick" else 48)]
    # process history: before the array type of a struct item is requested, ANOTHER struct class with the same class name
    # (other fields) has had its array type of the same shape requested and used
    tw = [t for t in ts if t[0] == "A" and t[1][0] == "St"]
    out += [("twin-item", c) for c in cons.chunk(tw, 8 if tier == "quick" else 16)]
    # struct classes whose reference fields are DECLARED with non-null defaults (default=, default_factory=)
    out += [("declared-defaults", "default"), ("declared-defaults", "factory")]
    # union references given member objects of one foreign buffer that start at the same offset
    out.append(("coincident",))
    return out


def judge(o, vmode, res, seen):
    """apply the C01 oracle to one executed construction; returns violation or None"""
    t = o.t
    cid = cons.case_id(t, vmode, o.form, o.pname)
    f = cons.feats(t, vmode, o.form, o.pname)
    cid["decl"] = f["decl"] = xt.DECL[0]
    cid["process_history"] = f["process_history"] = _HIST[0]
    if o.error is not None:
        res.outcomes["construct-raises"] += 1
        return common.violation("C01.construct", "raises:" + common.exc_failure(o.error), f, cid, repr(o.error))
    try:
        with common.Watchdog(30):
            got = xt.read(t, o.obj)
    except xt.ReadMismatch as e:
        res.outcomes["read-inconsistent"] += 1
        return common.violation("C01.readback", "accessors-disagree", f, cid, str(e))
    except common.Watchdog.Expired:
        return common.violation("C01.readback", "read-hangs", f, cid, "")
    except Exception as e:
        res.outcomes["read-raises"] += 1
        return common.violation("C01.readback", "raises:" + common.exc_failure(e), f, cid, repr(e))
    res.oracles["readback"] += 1
    if not xt.veq(got, o.expect):
        res.outcomes["mismatch"] += 1
        return common.violation("C01.readback", "value-mismatch", f, cid, "first difference at %r: %s" % xt.vdiff(got, o.expect))
    res.outcomes["ok:" + f["formclass"]] += 1
    h = hashlib.sha1(repr(t).encode() + bytes(o.buf.to_bytearray(o.obj._offset, _size_of(o.obj)))).digest()
    seen.add(h)
    return None


def _size_of(obj):
    s = getattr(obj, "_size", None)
    if s is None:
        s = obj._get_size()
    return int(s)


def twin_prelude(types, res):
    import xobjects as xo

    for t in types:
        item = xt.build(t[1])
        Twin = type(item.__name__, (xo.Struct,), {"zz": xo.Float32, "yy": xo.Int8, "ww": xo.String})
        ident = tuple(t[3]) == tuple(range(len(t[2])))
        idx = tuple(slice(None) if d is None else d for d in t[2]) if ident else tuple(slice(d, o) for d, o in zip(t[2], t[3]))
        TwArr = Twin[idx if len(idx) > 1 else idx[0]]
        try:
            shape = [2 if d is None else d for d in t[2]]
            one = {"zz": 1.5, "yy": 3, "ww": "w"}

            def nest(d):
                return one if d == len(shape) else [nest(d + 1) for _ in range(shape[d])]

            TwArr(nest(0))
        except Exception as e:
            res.skipped["twin-construct:" + common.exc_failure(e)] += 1
        xt._cache.pop((t, xt.DECL[0]), None)  # the array type of the real item is requested AFTER the twin's


_HIST = [None]


DECL_FORMS = ["py", "nd", "ndF", "xobj-other", "cap", "len"]


def run_declared_defaults(variant, res):
    """fields declared with a non-null default: what is GIVEN at construction is read back (None included: a null), what is
    omitted reads the default; as keywords, as a dictionary, as an item of an array of such structs, nested in another struct,
    in a fresh buffer and in a dirty hole"""
    from . import c08, c09

    Pd, Ud, Hd, Od = c08.defaults_classes(variant)
    dflt = {"r": (7, 1.5), "u": (9, 3.5)}
    given = {"r": c08.d_arg(variant, {"a": 1, "b": 0.5}), "u": ("C08Pd", {"a": 2, "b": 0.25})}
    want_given = {"r": (1, 0.5), "u": (2, 0.25)}
    n = 0
    for rmode in ("omitted", "none", "value"):
        for umode in ("omitted", "none", "value"):
            arg, want = {"k": 5}, {"k": 5}
            for f, mode in (("r", rmode), ("u", umode)):
                if mode == "none":
                    arg[f] = None
                elif mode == "value":
                    arg[f] = given[f]
                want[f] = None if mode == "none" else want_given[f] if mode == "value" else dflt[f]
            for how in ("kwargs", "dict", "array-item", "nested", "dirty-hole"):
                res.cases += 1
                res.transitions += 1
                res.events["construct"] += 1
                f_ = dict(root="St", form="py:" + how, decl="declared-defaults:" + variant, r=rmode, u=umode)
                cid = dict(part="declared-defaults", variant=variant, r=rmode, u=umode, how=how)
                try:
                    if how == "kwargs":
                        h = Hd(**arg)
                    elif how == "dict":
                        h = Hd(dict(arg))
                    elif how == "array-item":
                        h = Hd[:]([dict(arg), dict(arg)])[1]
                    elif how == "nested":
                        h = Od(h=dict(arg), z=3).h
                    else:
                        pl = place.place("dirtyhole", 256)
                        h = Hd(dict(arg), **pl.kw)
                    got = c09.d_read(h)
                except Exception as e:
                    res.violations.append(common.violation("C01.construct", "raises:" + common.exc_failure(e), f_, cid, repr(e)))
                    continue
                res.oracles["readback"] += 1
                if got != want:
                    res.outcomes["bad:declared-default"] += 1
                    res.violations.append(common.violation("C01.readback", "value-mismatch", f_, cid, "given %r (%s), read back %r, expected %r" % (arg, how, got, want)))
                else:
                    res.outcomes["ok:declared-default"] += 1
                    n += 1
    res.states = res.nontrivial = n
    res.max_depth = 1
    return res


_co = {}


def coincident_classes():
    import xobjects as xo

    if not _co:
        F = type("C01coF", (xo.Struct,), {"a": xo.Float64, "b": xo.Int64})
        W = type("C01coW", (xo.Struct,), {"first": F, "c": xo.Int64, "d": xo.Float64})  # static: W and W.first start at one offset
        FA = F[2]  # ... and so do a static array and its item 0
        U = type("C01coU", (xo.UnionRef,), {"_reftypes": (F, W, FA)})
        H = type("C01coH", (xo.Struct,), {"u1": U, "k": xo.Int64, "u2": U})
        _co.update(F=F, W=W, FA=FA, U=U, H=H)
    return _co


def run_coincident(res):
    """union references (array items, struct fields) given member OBJECTS of one foreign buffer that start at the same offset
    (a static struct and the part nested first in it; a static array and its first item), in every order, next to nulls and to
    an object given twice: every slot reads back the object it was given, with its own member type"""
    import itertools

    c = coincident_classes()
    n = 0
    for kind in ("np", "ba"):
        fb = place.traced(kind, 0)
        fb.allocate(24)
        w = c["W"](first={"a": 1.5, "b": 7}, c=9, d=2.5, _buffer=fb)
        fa = c["FA"]([{"a": 3.5, "b": 1}, {"a": 4.5, "b": 2}], _buffer=fb)
        objs = {"W": (w, ("W", (1.5, 7, 9, 2.5))), "W.first": (w.first, ("F", (1.5, 7))), "FA": (fa, ("FA", ((3.5, 1), (4.5, 2)))), "FA[0]": (fa[0], ("F", (3.5, 1))), "None": (None, None)}

        def rd(x):
            if x is None:
                return None
            nm = type(x).__name__
            if nm == "C01coF":
                return ("F", (float(x.a), int(x.b)))
            if nm == "C01coW":
                return ("W", (float(x.first.a), int(x.first.b), int(x.c), float(x.d)))
            return ("FA", tuple((float(x[i].a), int(x[i].b)) for i in range(2)))

        for names in list(itertools.permutations(["W", "W.first", "FA", "FA[0]"], 2)) + [("W", "W.first", "None", "W"), ("FA[0]", "None", "FA", "FA[0]"), ("W.first", "W", "W.first")]:
            for how in ("array-dyn", "array-static", "struct-fields", "array-from-xobj"):
                if how == "struct-fields" and len(names) != 2:
                    continue
                res.cases += 1
                res.transitions += 1
                res.events["construct"] += 1
                vals = [objs[k][0] for k in names]
                want = [objs[k][1] for k in names]
                f_ = dict(root="A" if how != "struct-fields" else "St", form="xobj-members:" + how, decl="coincident", buffer=kind)
                cid = dict(part="coincident", names=list(names), how=how, buffer=kind)
                try:
                    db = place.traced("np", 0)
                    if how == "array-dyn":
                        got = [rd(x) for x in c["U"][:](vals, _buffer=db)]
                    elif how == "array-static":
                        got = [rd(x) for x in c["U"][len(vals)](vals, _buffer=db)]
                    elif how == "array-from-xobj":
                        src = c["U"][:](vals, _buffer=fb)  # (in the members' own buffer: bound, not copied)
                        got = [rd(x) for x in c["U"][:](src, _buffer=db)]
                    else:
                        h = c["H"](u1=vals[0], k=4, u2=vals[1], _buffer=db)
                        got = [rd(h.u1), rd(h.u2)]
                except Exception as e:
                    res.violations.append(common.violation("C01.construct", "raises:" + common.exc_failure(e), f_, cid, repr(e)))
                    continue
                res.oracles["readback"] += 1
                if got != want:
                    res.outcomes["bad:coincident"] += 1
                    res.violations.append(common.violation("C01.readback", "value-mismatch", f_, cid, "given %r, read back %r, expected %r" % (list(names), got, want)))
                else:
                    res.outcomes["ok:coincident"] += 1
                    n += 1
    res.states = res.nontrivial = n
    res.max_depth = 1
    return res


def run_shard(types, tier, seed):
    res = common.ShardResult()
    if isinstance(types, tuple) and types[0] == "declared-defaults":
        return run_declared_defaults(types[1], res)
    if isinstance(types, tuple) and types[0] == "coincident":
        return run_coincident(res)
    seen = set()
    pf = places_for(tier)
    forms = FORMS
    if isinstance(types, tuple) and types[0] == "subclass":
        xt.DECL[0] = "subclass"  # this process only (one forked child per shard)
        types, forms = types[1], DECL_FORMS
        pf0 = pf
        pf = lambda t, form: pf0(t, form)[:2]
    elif isinstance(types, tuple) and types[0] == "twin-item":
        import xobjects as xo

        types, forms = types[1], ["py", "xobj-other"]
        pf0 = pf
        pf = lambda t, form: pf0(t, form)[:1]
        _HIST[0] = "twin-item"
        twin_prelude(types, res)
    for t, vmode, v, form, pname in cons.enumerate_cases(types, cons.VMODES, forms, pf):
        res.cases += 1
        try:
            o = cons.execute(t, v, form, pname, seed)
        except Exception as e:  # failure while preparing the case (source object of an xobj form ...)
            res.skipped["prepare:" + common.exc_failure(e)] += 1
            continue
        res.transitions += 1
        res.events["construct"] += 1
        viol = judge(o, vmode, res, seen)
        if viol:
            res.violations.append(viol)
        elif len(res.samples) < 1 and form != "py":
            res.sample(dict(type=xt.show(t), value_mode=vmode, form=form, placement=pname, offset=int(o.obj._offset)))
    res.states = len(seen)
    res.nontrivial = len(seen)
    res.max_depth = 1
    return res


def replay(case):
    if case.get("part") == "coincident":
        return [v for v in run_coincident(common.ShardResult()).violations if all(v["case"].get(k) == case.get(k) for k in ("names", "how", "buffer"))]
    if case.get("part") == "declared-defaults":
        r = run_declared_defaults(case["variant"], common.ShardResult())
        return [v for v in r.violations if all(v["case"].get(k) == case.get(k) for k in ("r", "u", "how"))]
    t = xt.retuple(case["type"])
    xt.DECL[0] = case.get("decl", "index")
    if case.get("process_history") == "twin-item":
        twin_prelude([t], common.ShardResult())
    v = xt.gen(t, case["vmode"])
    res = common.ShardResult()
    o = cons.execute(t, v, case["form"], case["place"], 0)
    viol = judge(o, case["vmode"], res, set())
    return [viol] if viol else []
