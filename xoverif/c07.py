"""C07: C setters change exactly one element; accessors stay in bounds under sanitizers (DESIGN.md 2/C07)."""
import os
import shutil
import struct as pystruct
import tempfile

import numpy as np

from . import c02, cnative, common, cons, cseam, hist, place, universe, xt

PID = "C07"


def describe(tier):
    return dict(
        rule="(a) cffi route: for every type x object x scalar-leaf path x every in-range index tuple x value in {another value, type min, type max}: call the "
        "generated setter, then re-read the WHOLE object through Python: exactly that element changed, to exactly the value (history: the object keeps "
        "the values set so far). (b) sanitizer route: the emitted cpu source + uniform wrappers built stand-alone with clang -fsanitize=address,undefined "
        "-fno-sanitize-recover=all; the object's exact buffer image is loaded into malloc(size) (red zones on both sides, object flush against the end "
        "when it holds no references); every accessor of every path (get, getp, len, typeid, member, set) x every in-range index tuple is executed: no "
        "sanitizer report, results equal to Python's, read-only accessors change no byte, each setter changes only bytes of its element, and the final "
        "image decodes (independent decoder) to the value tree with every leaf replaced.",
        bounds=dict(types_cffi=len(types_for(tier, "cffi")), types_sanitizer=len(types_for(tier, "asan")), values=["ramp", "minimal"]),
        assumptions=["calls through a null reference are not well-formed and are not made", "objects start on an 8-byte boundary of a 16-byte aligned image"],
        must_fire=["set", "asan-call", "asan-set", "grow-between-calls"],
    )


def types_for(tier, route):
    ts = c02.types_for(tier)
    if tier == "quick" and route == "cffi":
        ts = ts[::2]
    return ts


def shards(tier, seed):
    common.quiet()
    out = [("cffi", b) for b in cseam.plan_batches(types_for(tier, "cffi"), 24)]
    out += [("asan", b) for b in cseam.plan_batches(types_for(tier, "asan"), 16)]
    # one batch per float kind built with the compile / link lines the library chooses when the caller gives none
    fl = [t for t in types_for(tier, "cffi") if "Float32" in xt.show(t) or "f32" in xt.show(t)][:8] + [t for t in types_for(tier, "cffi") if "Float64" in xt.show(t) or "f64" in xt.show(t)][:8]
    out += [("cffi-defaults", b) for b in cseam.plan_batches(fl, 16)]
    return out[seed % len(out):] + out[: seed % len(out)]


# bit patterns of the subnormals of set_values (positions 3, 4), written out: once a module built with fast-math link
# options is loaded the process flushes subnormals in conversions AND comparisons, so values cannot be trusted to tell
SUB_BITS = {"f32": [bytes.fromhex("01000000"), bytes.fromhex("ffff7f80")], "f64": [bytes.fromhex("0100000000000000"), bytes.fromhex("ffffffffffff0f80")]}


def set_values(lt, cur, n):
    kind = lt[1]
    if kind[0] == "f":
        # ... then the two zeros one over the other (equal as values, different bits: "exactly the value passed")
        sub = [1.401298464324817e-45, -1.1754942106924411e-38] if kind == "f32" else [5e-324, -2.225073858507201e-308]  # smallest / largest subnormal
        c = [float(n % 90) + 2.75, -3.0e38 if kind == "f32" else -1.7e308, float("inf")] + sub + [0.0, -0.0, 0.0]
    else:
        lo, hi = xt.int_range(kind)
        c = [(n * 7 + 3) % hi + 1, lo, hi]
    return c


def route_cffi(types, res, seed, defaults=False):
    try:
        ctx, kernels = cseam.build_module(types, extra_compile_args="default") if defaults else cseam.build_module(types)
    except Exception as e:
        res.skipped["api-does-not-build(C02's business):" + type(e).__name__] += len(types)
        return
    for ti, t in enumerate(types):
        for vmode in ("ramp", "minimal", "ramp:bytearray"):
            kind = "np"
            if vmode.endswith(":bytearray"):
                if ti % 3:
                    continue
                vmode, kind = "ramp", "ba"
            v = xt.gen(t, vmode)
            try:
                obj, buf = cseam.place_object(t, v, seed, kind)
                if not xt.veq(xt.read(t, obj), v):
                    res.skipped["initial-readback(C01's business)"] += 1
                    continue
            except Exception as e:
                res.skipped["construct(C01's business):" + common.exc_failure(e)] += 1
                continue
            res.cases += 1
            mv = v
            n = 0
            sig = set()
            originals = []
            f0 = cons.feats(t, vmode, "py", "grown-shared")
            for c in list(cseam.calls_for_object(t, v, obj, actions=("set",))):
                kw = {"i%d" % k: int(i) for k, i in enumerate(c["idx"])}
                cur = xt.get_path(mv, c["vpath"])
                for vi, val in enumerate(set_values(c["lt"], cur, n)):
                    n += 1
                    if n % 4 == 2:
                        # the buffer grows (its storage is replaced) between two calls of the same kernels: anything a
                        # call remembers about the old storage must not survive
                        buf.grow(8)
                        res.events["grow-between-calls"] += 1
                    if n % 8 == 5:
                        # the object is replaced by a deep copy of itself (its own buffer, its own storage); the original stays
                        # alive and must not change any more: anything a kernel call remembers about where an object of the
                        # old buffer lives does not describe the copy
                        try:
                            import copy as pycopy

                            twin = pycopy.deepcopy(obj)
                            if xt.veq(xt.read(t, twin), mv):
                                originals.append((obj, buf, mv))
                                obj, buf = twin, twin._buffer
                                res.events["deepcopy-between-calls"] += 1
                        except Exception as e:
                            res.skipped["deepcopy(C20's business):" + common.exc_failure(e)] += 1
                    res.transitions += 1
                    res.events["set"] += 1
                    common.breadcrumb("%s|%s|%s(%r, value=%r)" % (xt.show(t), vmode, c["kern"].c_name, kw, val))
                    try:
                        getattr(ctx.kernels, c["kern"].c_name)(obj=obj, value=val, **kw)
                    except Exception as e:
                        k = ("C07.set", "call-raises:" + type(e).__name__)
                        if k not in sig:
                            sig.add(k)
                            res.violations.append(common.violation(k[0], k[1], dict(f0, route="cffi"), dict(type=t, type_str=xt.show(t), vmode=vmode, route="cffi", call=c["kern"].c_name, index=list(c["idx"])), repr(e)))
                        continue
                    if c["lt"][1] in SUB_BITS and vi in (3, 4) and not originals:
                        res.oracles["subnormal-bits"] += 1
                        wantb = SUB_BITS[c["lt"][1]][vi - 3]
                        raw = bytes(buf.to_bytearray(int(c["elem_addr"]), len(wantb)))
                        if raw != wantb:
                            k = ("C07.set", "not-exactly-the-value-passed:subnormal")
                            if k not in sig:
                                sig.add(k)
                                res.violations.append(common.violation(k[0], k[1], dict(f0, route="cffi", leaf=c["lt"][1], defaults=defaults), dict(type=t, type_str=xt.show(t), vmode=vmode, route="cffi", call=c["kern"].c_name, index=list(c["idx"]), value=repr(val)), "after %s(%r, value=%s) the element holds %s, the value passed is %s" % (c["kern"].c_name, kw, float(val).hex(), raw.hex(), wantb.hex())))
                    want = xt.pyval(np.dtype(xt.NPDT[c["lt"][1]]).type(val))
                    mv = xt.set_path(mv, c["vpath"], want)
                    try:
                        got = xt.read(t, obj)
                    except Exception as e:
                        got = None
                        why = "re-read raises %r" % (e,)
                    if got is None or not xt.veq(got, mv):
                        k = ("C07.set", "not-exactly-that-element")
                        res.outcomes["bad:set"] += 1
                        if k not in sig:
                            sig.add(k)
                            d = why if got is None else "after %s(%r, value=%r): first difference at %r: %s" % ((c["kern"].c_name, kw, val) + xt.vdiff(got, mv))
                            res.violations.append(common.violation(k[0], k[1], dict(f0, route="cffi", leaf=c["lt"][1], through_ref="*" in c["vpath"]), dict(type=t, type_str=xt.show(t), vmode=vmode, route="cffi", call=c["kern"].c_name, index=list(c["idx"]), value=repr(val)), d))
                        if got is not None:
                            mv = got  # resynchronise so that one defect is not reported for every later call
                    else:
                        res.outcomes["ok:set"] += 1
                    for oo, ob, om in originals[-1:]:
                        try:
                            same = xt.veq(xt.read(t, oo), om)
                        except Exception:
                            same = False
                        k = ("C07.set", "changes-another-object")
                        if not same and k not in sig:
                            sig.add(k)
                            res.violations.append(common.violation(k[0], k[1], dict(f0, route="cffi", leaf=c["lt"][1]), dict(type=t, type_str=xt.show(t), vmode=vmode, route="cffi", call=c["kern"].c_name, index=list(c["idx"])),
                                                                   "after %s on a deep copy, the object the copy was made from reads differently" % c["kern"].c_name))
            res.states += 1


def val_bytes(lt, val):
    return np.dtype(xt.NPDT[lt[1]]).type(val).tobytes()


def flush_object(t, v, seed):
    """object flush against the end of its buffer when it holds no references, at a 16-byte aligned non-zero offset"""
    size = xt.layout_size(t, v)
    arg = xt.to_py(t, v) if xt.py_expressible(t, v) else xt.to_nd(t, v, "nd")
    if xt.has_refs(t):
        b = place.traced("np", 16, default_alignment=8)
        b.allocate(16)
        return xt.construct(t, arg, _buffer=b), b
    b = place.traced("np", 16 + size, default_alignment=1)
    a = b.allocate(16)
    b.update_from_buffer(a, place.poison(16, seed))
    return xt.construct(t, arg, _buffer=b, _offset="packed"), b


def route_asan(types, res, seed, target="cpu_serial", sanitize=True, label="asan", pid="C07"):
    work = tempfile.mkdtemp(prefix="xoverif-c07-", dir=os.getcwd())
    try:
        try:
            exe, table, text = cnative.build(work, types, target, sanitize=sanitize)
        except cnative.BuildError as e:
            res.violations.append(common.violation(pid + ".build", "standalone-build-fails:" + target, dict(route=label), dict(types=[xt.show(t) for t in types[:4]], route=label), str(e)[-2500:]))
            return
        jobs, metas = [], []
        for ti, t in enumerate(types):
            for vmode in ("ramp", "minimal", "cap"):
                v = xt.gen(t, "ramp" if vmode == "cap" else vmode)
                if vmode == "cap":
                    if not any(s_[0] == "Str" for s_ in xt.subtypes(t)) or not xt.py_expressible(t, v):
                        continue
                try:
                    if vmode == "cap":
                        # strings given as integer capacities (sizes that are not whole slots): accessors must still make
                        # only accesses that are aligned relative to the object start
                        arg, v = cons.cap_transform(t, v)
                        bb = place.traced("np", 16, default_alignment=8)
                        bb.allocate(16)
                        obj, buf = xt.construct(t, arg, _buffer=bb), bb
                    else:
                        obj, buf = flush_object(t, v, seed)
                    if not xt.veq(xt.read(t, obj), v):
                        res.skipped["initial-readback(C01's business)"] += 1
                        continue
                    calls = list(cseam.calls_for_object(t, v, obj, actions=("get", "getp", "len", "typeid", "member")))
                    sets = list(cseam.calls_for_object(t, v, obj, actions=("set",)))
                except Exception as e:
                    res.skipped["construct/walk(C01/C02's business):" + common.exc_failure(e)] += 1
                    continue
                img = place.whole(buf)
                off = int(obj._offset)
                script, recs = [], []
                for c in calls:
                    fid = table[(ti, c["pi"], c["action"])][0]
                    script.append((fid, off, c["idx"], b""))
                    recs.append(c)
                mv = v
                for n, c in enumerate(sets):
                    fid = table[(ti, c["pi"], "set")][0]
                    cur = xt.get_path(mv, c["vpath"])
                    val = set_values(c["lt"], cur, n + 1)[n % 3]
                    vb = val_bytes(c["lt"], val)
                    script.append((fid, off, c["idx"], vb))
                    c = dict(c, valbytes=vb)
                    recs.append(c)
                    mv = xt.set_path(mv, c["vpath"], xt.pyval(np.dtype(xt.NPDT[c["lt"][1]]).type(val)))
                jobs.append((img, script))
                metas.append(dict(t=t, vmode=vmode, recs=recs, off=off, final=mv, size=len(img)))
                res.cases += 1
        results, images, failure = cnative.execute(exe, work, jobs)
        for ji, meta in enumerate(metas):
            if ji >= len(results):
                break
            t = meta["t"]
            f0 = cons.feats(t, meta["vmode"], "py", "flush")
            f0["route"] = label
            sig = set()

            def bad(oracle, failure_, detail, c=None):
                res.outcomes["bad:" + failure_.split(":")[0]] += 1
                if (oracle, failure_) in sig:
                    return
                sig.add((oracle, failure_))
                cid = dict(type=t, type_str=xt.show(t), vmode=meta["vmode"], route=label, target=target)
                ff = dict(f0)
                if c is not None:
                    cid.update(call=c["kern"].c_name, index=list(c["idx"]))
                    ff.update(action=c["action"], last_kind=c["lt"][0], through_ref="*" in c["vpath"])
                res.violations.append(common.violation(oracle, failure_, ff, cid, detail))

            for ci, (out8, lo, hi) in enumerate(results[ji]):
                c = meta["recs"][ci]
                res.transitions += 1
                res.events[label + ("-set" if c["action"] == "set" else "-call")] += 1
                if c["action"] == "set":
                    a0, a1 = c["elem_addr"], c["elem_addr"] + c["size"]
                    if lo != -1 and (lo < a0 or hi > a1):
                        bad(pid + ".set-confined", "setter-writes-outside-element", "%s changed bytes [%d,%d), element is [%d,%d)" % (c["kern"].c_name, lo, hi, a0, a1), c)
                    continue
                if lo != -1:
                    bad(pid + ".read-only", "reader-modifies-image", "%s changed bytes [%d,%d)" % (c["kern"].c_name, lo, hi), c)
                if c["kind"] == "val":
                    exp = val_bytes(c["lt"], c["expect"])
                    if out8[: len(exp)] != exp and not (c["expect"] != c["expect"]):
                        bad(pid + ".result", "value-differs", "%s -> %s, Python reads %r" % (c["kern"].c_name, out8[: len(exp)].hex(), c["expect"]), c)
                else:
                    got = pystruct.unpack("<q", out8)[0]
                    if got != c["expect"]:
                        bad(pid + ".result", "result-differs:" + c["action"], "%s -> %d, Python reports %d" % (c["kern"].c_name, got, c["expect"]), c)
            if failure is not None and failure[0] == ji:
                ci = failure[1]
                c = meta["recs"][ci] if ci < len(meta["recs"]) else None
                kind = "sanitizer-report" if "Sanitizer" in failure[2] or "runtime error" in failure[2] else "crash"
                bad(pid + ".sanitizers", kind, "exit %s during %s\n%s" % (failure[3], c["kern"].c_name if c else "?", failure[2][-1800:]), c)
                res.notes.append("C07 sanitizer route: process stopped at object %d call %d; later objects of the batch were not executed" % (ji, ci))
                break
            if ji < len(images):
                # final state: every leaf replaced, nothing else touched
                try:
                    val, _ = xt.decode(t, images[ji], meta["off"], issues=[])
                    res.oracles["final-image"] += 1
                    if not xt.veq(val, meta["final"]):
                        bad(pid + ".set", "final-image-differs", "first difference at %r: %s" % xt.vdiff(val, meta["final"]))
                except xt.Bad as e:
                    bad(pid + ".set", "final-image-undecodable", str(e))
                res.states += 1
        if failure is not None and failure[0] >= len(metas):
            res.notes.append("HARNESS-ERROR: driver exit %r without a failing call: %s" % (failure[3], failure[2][-500:]))
    finally:
        shutil.rmtree(work, ignore_errors=True)


def run_shard(shard, tier, seed):
    res = common.ShardResult()
    if shard[0] in ("cffi", "cffi-defaults"):
        route_cffi(shard[1], res, seed, defaults=(shard[0] == "cffi-defaults"))
    else:
        route_asan(shard[1], res, seed)
    res.nontrivial = res.states
    res.max_depth = 2
    if shard[1]:
        res.sample(dict(route=shard[0], batch_types=[xt.show(t) for t in shard[1][:3]]))
    return res


def on_crash(res, shard, exitcode, crumb):
    if shard[0] == "cffi" and exitcode is not None and exitcode < 0 and crumb:
        res.violations.append(common.violation("C07.crash", "setter-crashes:signal%d" % -exitcode, dict(signal=-exitcode, route="cffi"), dict(types=[xt.show(t) for t in shard[1][:4]], last_call=crumb, route="cffi"), "worker killed by signal %d during %s" % (-exitcode, crumb)))
    else:
        res.notes.append("HARNESS-ERROR: worker died with exit code %r (%s)" % (exitcode, crumb[:200]))


def replay(case):
    t = xt.retuple(case["type"])
    res = common.ShardResult()
    if case.get("route") == "cffi":
        route_cffi([t], res, 0)
    else:
        route_asan([t], res, 0)
    return res.violations
