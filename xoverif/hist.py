"""History systems over one constructed object (C03, C06, C10, C11): explicit-state BFS over assignment events.

A state is (initial case, event history); it is rebuilt from scratch by replay (fresh buffer, fresh handles).
The reference model is the value tree updated at exactly the assigned path.  States are deduplicated on the
bytes of the whole buffer + the model value (two configurations with identical bytes and identical model are
indistinguishable to deterministic code; handles are always rebuilt)."""
import hashlib

import numpy as np

from . import common, cons, hand, place, xt


# --------------------------------------------------------------------------
# values that fit


def same_size_alt(t, v, n=0):
    """another value of type t with exactly the layout of v (same shapes, same encoded string lengths)"""
    k = t[0]
    if k == "S":
        return hand.alt_leaf(t, v, n)
    if k == "Str":
        b = len(v.encode("utf8"))
        return ("Q" if not v.startswith("Q") else "W") * b
    if k == "St":
        return {nm: same_size_alt(ft, v[nm], n + i) for i, (nm, ft) in enumerate(t[1])}
    if k == "A":
        return {"shape": v["shape"], "items": {idx: same_size_alt(t[1], iv, n + j) for j, (idx, iv) in enumerate(v["items"].items())}}
    if k == "R":
        return None if v is None else same_size_alt(t[1], v, n)
    if k == "U":
        return None if v is None else (v[0], same_size_alt(t[1][v[0]], v[1], n))


def string_room(v):
    return xt.slot(len(v.encode("utf8")) + 1) - 1


def leaf_candidates(lt, cur, room, n):
    if lt[0] == "S":
        kind = lt[1]
        if kind[0] == "f":
            cands = [float(n % 50) + 7.25, -0.0, float("inf")]
        else:
            lo, hi = xt.int_range(kind)
            cands = [(n * 7 + 5) % hi + 1, hi, lo]
        return [c for c in cands if not xt.veq(c, cur)][:2]
    # a multi-byte value that fills the room exactly (in BYTES), the empty string, an ASCII fill
    cands = ["é" * (room // 2) + "Z" * (room % 2), "", "Z" * room, "\U0001f600" * (room // 4)]
    return [c for c in cands if c != cur and len(c.encode("utf8")) <= room][:2]


# --------------------------------------------------------------------------
# the system


class State:
    pass


def union_prelude(t):
    """process history: for every union of the type with >= 2 members, ANOTHER union class listing the same members in
    reverse order has stored an object of each member (object form) before the type under test is used"""
    for u in xt.subtypes(t):
        if u[0] == "U" and len(u[1]) > 1 and u not in _preluded:
            _preluded.add(u)
            try:
                rev = ("U", tuple(reversed(u[1])))
                rcls = xt.build(rev)
                for m in u[1]:
                    mv = xt.gen(m, "ramp")
                    if xt.py_expressible(m, mv):
                        rcls(xt.construct(m, xt.to_py(m, mv)))
            except Exception:
                pass


_preluded = set()
_siblings = set()
CAPMODE = [False]


def initial_value(t, vmode):
    CAPMODE[0] = vmode == "cap"
    if vmode == "cap":
        return cons.cap_transform(t, xt.gen(t, "ramp"))[1]
    return xt.gen(t, vmode)


def sibling_prelude(t):
    """process history: before the object under test exists, the very classes it is made of have served a LARGER object (every
    dynamic extent larger than any the value alphabets use), read at every index and written at every leaf.  Whatever a class
    remembers about indices, places or sizes of an instance belongs to that instance."""
    if t in _siblings or not xt.is_dyn(t):
        return
    _siblings.add(t)
    try:
        big = xt.gen(t, "alt", dynext=(5, 6, 5))
        if not xt.py_expressible(t, big) or xt.layout_size(t, big) > 200000:
            return
        h = xt.construct(t, xt.to_py(t, big), _buffer=place.traced("np", 0))
        xt.read(t, h)
        from . import hand

        for lp, lt, lv in xt.leaf_paths(t, big):
            if lp and lt[0] == "S":
                try:
                    hand.assign(t, h, lp, lv)
                except Exception:
                    pass
    except Exception:
        pass  # (a larger object that cannot be built or read is C01's business)


def build(t, v0, pname, hist, salt=0):
    """Construct the initial object and replay `hist` (without judging).  Returns State."""
    s = State()
    union_prelude(t)
    sibling_prelude(t)
    if CAPMODE[0]:
        # value alphabet `cap`: every string of the initial object is created from an integer capacity (it reads back empty);
        # the room fixed at its creation is that capacity (sizes that are not whole slots), one byte of it for the terminator
        o = cons.execute(t, xt.gen(t, "ramp"), "cap", pname, salt)
    else:
        o = cons.execute(t, v0, "py" if xt.py_expressible(t, v0) else "nd", pname, salt)
    if o.error is not None:
        raise o.error
    s.t, s.o, s.h, s.buf = t, o, o.obj, o.buf
    s.mv = v0
    s.pl = o.pl
    s.rooms = {p: string_room(lv) for p, lt, lv in xt.leaf_paths(t, v0) if lt[0] == "Str"}
    if CAPMODE[0]:
        parts = []
        xt.decode(t, place.whole(s.h._buffer), int(s.h._offset), parts, issues=[])
        sizes = {p_.path: p_.size for p_ in parts}
        s.rooms = {p: max(0, sizes[tuple(p)] - 8 - 1) for p in s.rooms}
    s.view = None
    s.foreign = {}
    # a view that exists from the start; both long-lived handles are read in full after construction and after every
    # replayed event, so that whatever a handle remembers about earlier reads is part of every explored state
    s.v0 = None
    try:
        s.v0 = view_of(s) if t[0] != "U" else None
    except Exception:
        pass
    touch(s)
    for ev in hist:
        apply_event(s, ev)
        touch(s)
    return s


def touch(s):
    for h in (s.h, s.v0):
        if h is None:
            continue
        try:
            xt.read(s.t, h, deep=False)
            if s.t[0] == "A" and s.t[1][0] == "S":
                h.to_nplike()  # (the typed window of a long-lived handle has been asked for before every event)
        except Exception:
            pass  # judged where it happens


def view_of(s):
    t, h = s.t, s.h
    if t[0] == "U":
        return xt.build(t)._from_buffer(h._buffer, h._offset)  # the target (or None)
    return xt.build(t)._from_buffer(h._buffer, h._offset)


def handle_for(s, via, path):
    """(root type, root handle) through which the event writes"""
    if via == "h":
        return s.t, s.h
    if via == "v":
        t = s.t
        return t, view_of(s)
    raise ValueError(via)


def apply_event(s, ev):
    """execute ev on the implementation and on the model; exceptions propagate"""
    kind = ev[0]
    if kind == "set":
        _, via, path, val = ev
        do_set(s, via, path, val)
        s.mv = xt.set_path(s.mv, path, val)
    elif kind == "setc":
        _, via, path, form, val = ev
        ft, _ = type_at(s.t, s.mv, path)
        arg = xt.to_py(ft, val) if form == "py" else xt.to_nd(ft, val, form) if form in cons.ND else None
        if form in ("xobj", "xobj-view", "xobj-resplit"):
            arg = xt.construct(ft, xt.to_py(ft, val), _buffer=place.traced("np", 0))
        elif form in ("xobj-same", "xobj-same-view"):
            # the source lives in the SAME buffer as the object it is assigned into
            arg = xt.construct(ft, xt.to_py(ft, val), _buffer=s.h._buffer)
        elif form == "member-obj":
            arg = xt.construct(ft[1][val[0]], xt.to_py(ft[1][val[0]], val[1]), _buffer=s.h._buffer)
        elif form == "member-foreign":
            # ONE object per member type, living in another buffer and kept for the whole history: it is modified in place
            # to the value wanted now and bound again through the same python handle (the holder copies it every time)
            mt = ft[1][val[0]]
            fo = s.foreign.get(mt)
            if fo is None:
                fo = s.foreign[mt] = xt.construct(mt, xt.to_py(mt, val[1]), _buffer=place.traced("np", 0))
            else:
                fo._update(xt.to_py(mt, val[1]))
            arg = fo
        if form.endswith("-view") and ft[0] != "U":
            arg = xt.build(ft)._from_buffer(arg._buffer, arg._offset)  # a view, not the constructor's handle
        do_set(s, via, path, arg)
        s.mv = xt.set_path(s.mv, path, val)
        # plain data assigned over a reference creates a NEW target sized for the new value: the space "fixed at
        # creation" of every string below such a reference is the one of the object just created
        for lp, lt, lv in xt.leaf_paths(ft, val):
            if lt[0] == "Str" and any(q in ("*", "#") for q in lp):
                s.rooms[tuple(path) + tuple(lp)] = string_room(lv)
    elif kind == "bind2":
        _, via, pa, pb, (m, fv) = ev
        fo = xt.construct(m, xt.to_py(m, fv), _buffer=place.traced("np", 0))
        for pth in (pa, pb):
            rt, _ = type_at(s.t, s.mv, pth)
            do_set(s, via, pth, fo)
            s.mv = xt.set_path(s.mv, pth, fv if rt[0] == "R" else (list(rt[1]).index(m), fv))
            for lp, lt, lv in xt.leaf_paths(rt, fv if rt[0] == "R" else (list(rt[1]).index(m), fv)):
                if lt[0] == "Str":
                    s.rooms[tuple(pth) + tuple(lp)] = string_room(lv)
        s.keep = getattr(s, "keep", []) + [fo]
    elif kind == "grow":
        b = s.h._buffer
        cap = b.capacity
        n = 0
        while b.capacity == cap and n < 64:
            b.allocate(max(cap, 8))
            n += 1
    else:
        raise ValueError(ev)


def type_at(t, v, path):
    """(type, value) at a value-tree path"""
    for p in path:
        k = t[0]
        if p == "*":
            t = t[1]
        elif p == "#":
            t = t[1][v[0]]
            v = v[1]
        elif isinstance(p, tuple):
            t = t[1]
            v = v["items"][p]
        else:
            t = dict(t[1])[p]
            v = v[p]
    return t, v


INDEX_KINDS = {"h-i8": np.int8, "h-u8": np.uint8, "h-i16": np.int16}


def do_set(s, via, path, val):
    if via in INDEX_KINDS:
        with hand.index_kind(INDEX_KINDS[via]):
            hand.assign(s.t, s.h, path, val)
    elif via == "h-strobj":
        import xobjects as xo

        hand.assign(s.t, s.h, path, xo.String(val))  # the text given as a String OBJECT (its own size word must not travel)
    elif via == "v0":
        hand.assign(s.t, s.v0, path, val)
    elif via in ("h", "v"):
        rt, rh = handle_for(s, via, path)
        if rt[0] == "U" and via == "v":
            # the view of a union reference is its target: continue below the member marker
            assert path[0] == "#"
            names = xt.member_names(rt)
            rt = rt[1][names.index(type(rh).__name__)]
            path = path[1:]
        hand.assign(rt, rh, path, val)
    elif via == "n":
        # nested view: rebuild the parent compound of the element from nothing but (buffer, offset)
        pt, ph = hand.nav(s.t, s.h, path[:-1])
        if pt[0] == "U" and hasattr(ph, "get"):
            ph = ph.get()
            names = xt.member_names(pt)
            pt = pt[1][names.index(type(ph).__name__)]
        if pt[0] == "R":
            pt = pt[1]
        nv = xt.build(pt)._from_buffer(ph._buffer, ph._offset)
        hand.assign(pt, nv, path[-1:], val)
    else:
        raise ValueError(via)


def events(s, opts, depth_now):
    """menu of legal (fitting) events in state s"""
    evs = []
    t, mv = s.t, s.mv
    n = depth_now * 13
    leaves = list(xt.leaf_paths(t, mv))
    if depth_now > 0 and len(leaves) > opts.get("deep_leaves", 6):
        # position alphabet at deeper levels: first, last and middle leaves
        k = opts.get("deep_leaves", 6)
        step = max(1, len(leaves) // k)
        leaves = leaves[::step][:k] + [leaves[-1]]
    vias = opts.get("vias", ("h", "v", "n"))
    for i, (path, lt, lv) in enumerate(leaves):
        if not path:
            continue
        room = s.rooms.get(path, 0)
        for val in leaf_candidates(lt, lv, room, n + i)[: opts.get("vals", 2)]:
            for via in vias:
                if via == "n" and len(path) < 2:
                    continue
                if via == "n" and path[-2] in ("*", "#") and len(path) < 3 and False:
                    continue
                evs.append(("set", via, path, val))
            if depth_now >= 1 and s.v0 is not None and any(q in ("*", "#") for q in path) and opts.get("old_view", True):
                # through the view that exists since construction and has looked at every reference before the
                # earlier events re-bound them through other handles
                evs.append(("set", "v0", path, val))
        if lt[0] == "Str" and opts.get("str_objects", True) and depth_now <= 1:
            for val in leaf_candidates(lt, lv, room, n + i)[1:2] or leaf_candidates(lt, lv, room, n + i)[:1]:
                evs.append(("set", "h-strobj", path, val))
        if depth_now == 0 and opts.get("index_kinds") and any(isinstance(p, tuple) and any(i > 0 for i in p) for p in path):
            # the same element addressed with small numpy integers (strides times index overflow their range)
            for val in leaf_candidates(lt, lv, room, n + i)[:1]:
                for via in opts["index_kinds"]:
                    evs.append(("set", via, path, val))
    if opts.get("compounds", True):
        for path, ct, cv in xt.compound_paths(t, mv):
            if path[-1] in ("*", "#"):
                continue  # rebinding a reference is C08's business
            val = same_size_alt(ct, cv, n)
            forms = ["py"]
            if ct[0] == "A" and ct[1][0] == "S":
                forms.append("nd")
            forms += ["xobj", "xobj-same"]
            if depth_now == 0:
                forms += ["xobj-view", "xobj-same-view"]
            if not xt.py_expressible(ct, val):
                forms = [f for f in forms if f == "nd"]
            for form in forms:
                for via in vias[:2] if depth_now else vias:
                    if via == "n" and len(path) < 2:
                        continue
                    evs.append(("setc", via, path, form, val))
            if ct[0] == "A" and ct[1][0] == "S" and opts.get("nd_layouts", True):
                # NumPy values of ANOTHER dtype and / or laid out otherwise than in C order (converted, Fortran-ordered,
                # transposed view, both): the assignment converts and re-orders, whatever the axis order of the array type
                for form in (("ndD", "ndFD", "ndTD", "ndF") if depth_now == 0 else ("ndFD",)):
                    if xt.nd_ok(ct, val, form):
                        evs.append(("setc", vias[depth_now % 2] if len(vias) > 1 else vias[0], path, form, val))
    if opts.get("resplit"):
        # NOT a fitting value: an object of the same class and total size whose room is split differently between its parts
        # (each part keeps the room fixed at its creation: the library refuses; a check that asks for this event judges
        # what happens if it does not)
        from . import c11

        for path, ct, cv in ([((), t, mv)] if t[0] in ("St", "A") else []) + list(xt.compound_paths(t, mv)):
            if (path and path[-1] in ("*", "#")) or xt.has_refs(ct):
                continue
            if not all(string_room(lv) == s.rooms.get(tuple(path) + tuple(lp), string_room(lv)) for lp, lt, lv in xt.leaf_paths(ct, cv) if lt[0] == "Str" and not any(q in ("*", "#") for q in lp)):
                continue
            for val in (c11.resplit_value(ct, cv), c11.resplit_array(ct, cv), c11.resplit_deep(ct, cv)):
                if val is not None:
                    evs.append(("setc", "h", path, "xobj-resplit", val))
    if opts.get("compounds", True) and xt.has_refs(t):
        # whole nested compounds whose references are all null, and rebinding of reference slots themselves
        for path, ct, cv in xt.compound_paths(t, mv):
            if path[-1] in ("*", "#") or not xt.has_refs(ct) or not xt.py_expressible(ct, cv):
                continue
            nv = null_refs(ct, same_size_alt(ct, cv, n + 1))
            for via in vias[:2]:
                evs.append(("setc", via, path, "py", nv))
        for path, rt, rv in ref_slots(t, mv):
            if not path:
                continue
            for via in vias[:2]:
                evs.append(("setc", via, path, "py", None))
                tt = rt[1] if rt[0] == "R" else rt[1][0]
                fresh = xt.gen(tt, "alt", xt.Ctr(200 + n))
                evs.append(("setc", via, path, "py", fresh if rt[0] == "R" else (0, fresh)))
                if rt[0] == "U" and len(rt[1]) > 1 and via == vias[0]:
                    # the last member given as an OBJECT living in the same buffer (bound, not copied)
                    k = len(rt[1]) - 1
                    lastv = xt.gen(rt[1][k], "alt", xt.Ctr(300 + n))
                    if xt.py_expressible(rt[1][k], lastv):
                        evs.append(("setc", via, path, "member-obj", (k, lastv)))
                if rt[0] == "U" and via == vias[0] and opts.get("foreign", True):
                    # the first member given as the ONE foreign object of its type (see apply_event), with another value of
                    # the same layout at every depth
                    m0 = rt[1][0]
                    if not xt.has_refs(m0) and m0[0] in ("St", "A"):
                        fv = same_size_alt(m0, xt.gen(m0, "alt", xt.Ctr(400)), n)
                        if xt.py_expressible(m0, fv):
                            evs.append(("setc", via, path, "member-foreign", (0, fv)))
    if opts.get("compounds", True) and xt.has_refs(t) and opts.get("bind2", True):
        # ONE object living in another buffer, left as it is, bound to TWO reference slots that take its type (plain and
        # union references): each slot gets an independent copy; the deeper levels write through one of them
        slots = [(p_, rt) for p_, rt, rv in ref_slots(t, mv) if p_]
        pairs = 0
        for a in range(len(slots)):
            for b in range(a + 1, len(slots)):
                (pa, ta), (pb, tb) = slots[a], slots[b]
                # (a slot below another reference of the pair would be replaced by the first binding)
                if pairs >= 2 or pa == pb[: len(pa)] or pb == pa[: len(pb)]:
                    continue
                common_t = [m for m in ([ta[1]] if ta[0] == "R" else list(ta[1])) if m in ([tb[1]] if tb[0] == "R" else list(tb[1]))]
                common_t = [m for m in common_t if not xt.has_refs(m) and m[0] in ("St", "A")]
                if not common_t:
                    continue
                m = common_t[0]
                fv = xt.gen(m, "alt", xt.Ctr(500 + n))
                if xt.py_expressible(m, fv):
                    evs.append(("bind2", vias[0], pa, pb, (m, fv)))
                    pairs += 1
    if opts.get("grow", True) and s.pl.buf is not None:
        evs.append(("grow",))
    return evs


def null_refs(t, v):
    k = t[0]
    if k in ("R", "U"):
        return None
    if k == "St":
        return {n: null_refs(ft, v[n]) for n, ft in t[1]}
    if k == "A":
        return {"shape": v["shape"], "items": {i: null_refs(t[1], x) for i, x in v["items"].items()}}
    return v


def ref_slots(t, v, path=()):
    """(path, type, value) of every reference / union-reference slot reachable without crossing a reference"""
    k = t[0]
    if k in ("R", "U"):
        yield path, t, v
    elif k == "St":
        for n, ft in t[1]:
            yield from ref_slots(ft, v[n], path + (n,))
    elif k == "A":
        for idx, iv in v["items"].items():
            yield from ref_slots(t[1], iv, path + (idx,))


def canon(s):
    b = s.h._buffer
    return hashlib.sha1(place.whole(b) + repr(sorted_repr(s.mv)).encode()).digest()


def sorted_repr(v):
    if isinstance(v, dict):
        return tuple((str(k), sorted_repr(x)) for k, x in sorted(v.items(), key=lambda kv: str(kv[0])))
    if isinstance(v, tuple):
        return tuple(sorted_repr(x) for x in v)
    if isinstance(v, float):
        return repr(v)
    return v


def ev_json(ev):
    return common.jsonable(list(ev))


def ev_features(ev, t, mv):
    f = dict(event=ev[0])
    if ev[0] in ("set", "setc"):
        f["via"] = ev[1]
        lt, _ = type_at(t, mv, ev[2])
        f["target_kind"] = lt[0]
        f["through_ref"] = any(p in ("*", "#") for p in ev[2])
        f["path_len"] = len(ev[2])
        if ev[0] == "setc":
            f["form"] = ev[3]
            f["target_rank"] = len(lt[2]) if lt[0] == "A" else 0
            f["target_dyn_item"] = lt[0] == "A" and xt.is_dyn(lt[1])
    return f


def explore(t, vmode, pname, depth, opts, judge, res, salt=0, seen=None, menu=None):
    """BFS to `depth` from the initial case (t, vmode, pname).
    judge(pre_state_builder, s_before, ev, s_after_or_exc) -> list of violation dicts; called on every transition."""
    v0 = initial_value(t, vmode)
    try:
        s0 = build(t, v0, pname, [], salt)
    except Exception as e:
        res.skipped["initial-construct:" + common.exc_failure(e)] += 1
        return
    # validated starting point (DESIGN 1.1): the initial state must satisfy the construction oracle
    try:
        if not xt.veq(xt.read(t, s0.h), v0):
            res.skipped["initial-readback-mismatch"] += 1
            return
    except Exception as e:
        res.skipped["initial-read:" + common.exc_failure(e)] += 1
        return
    res.cases += 1
    if seen is None:
        seen = set()
    seen.add(canon(s0))
    frontier = [([], [])]  # (events, menu indices)
    for d in range(depth):
        nf = []
        for hist, hidx in frontier:
            sb = build(t, v0, pname, hist, salt)
            evs = (menu or events)(sb, opts, d)
            for ei, ev in enumerate(evs):
                s = build(t, v0, pname, hist, salt)
                viols, cont = judge(s, ev, res)
                res.transitions += 1
                res.events[ev[0]] += 1
                for vl in viols:
                    vl["case"] = common.jsonable(dict(type=t, type_str=xt.show(t), vmode=vmode, place=pname, hist_idx=hidx, ev_idx=ei,
                                                      history=[ev_json(e) for e in hist], event=ev_json(ev)))
                    f = cons.feats(t, vmode, "py", pname)
                    f.update(ev_features(ev, t, sb.mv))
                    f["depth"] = d + 1
                    vl["features"] = common.jsonable(f)
                    res.violations.append(vl)
                if not cont:
                    continue
                k = canon(s)
                if k not in seen:
                    seen.add(k)
                    nf.append((hist + [ev], hidx + [ei]))
        res.max_depth = max(res.max_depth, d + 1)
        frontier = nf
    return seen


def replay_case(case, opts, judge, menu=None):
    """re-execute one recorded transition: the menus are regenerated deterministically from the state"""
    t = xt.retuple(case["type"])
    v0 = initial_value(t, case["vmode"])
    menu = menu or events
    hist = []
    for d, i in enumerate(case["hist_idx"]):
        sb = build(t, v0, case["place"], hist, 0)
        hist.append(menu(sb, opts, d)[i])
    sb = build(t, v0, case["place"], hist, 0)
    ev = menu(sb, opts, len(hist))[case["ev_idx"]]
    s = build(t, v0, case["place"], hist, 0)
    res = common.ShardResult()
    viols, _ = judge(s, ev, res)
    return viols


