"""C18: hybrid objects mirror their buffer data; copy/move keep value and ownership (DESIGN.md 2/C18)."""
import copy as pycopy
import hashlib
import itertools

import numpy as np

from . import common, place, xt

PID = "C18"

# field kinds: ("sc", xo scalar name) ("str",) ("arr", scalar, shape) ("hyb", inner class key) ("ref", inner class key)
INNERS = {
    "Inner": [("a", ("sc", "Int64")), ("b", ("arr", "Float64", (None,)))],
    "InnerS": [("p", ("sc", "Int32")), ("q", ("arr", "Float64", (2,)))],
    # two dynamically sized fields: objects of equal total size can split it differently between x and y
    "Inner2": [("k", ("sc", "Int64")), ("x", ("arr", "Int32", (None,))), ("y", ("arr", "Int32", (None,)))],
    "Mid": [("z", ("sc", "Int16")), ("inn", ("hyb", "Inner"))],  # a nested class that nests another one (three levels)
    "MidR": [("k", ("sc", "Int64")), ("r", ("ref", "Inner"))],  # a nested class that HOLDS A REFERENCE
    # a static class whose FIRST field is a nested object: the object and that part have the same offset
    "WrapS": [("first", ("hyb", "InnerS")), ("y", ("sc", "Int64"))],
}
SPLITS = {"outer": (2, 3), "same": (2, 3), "other": (4, 1)}  # equal total sizes (Int32 items, slot rounding); "other" splits the room differently: refused
OUTERS = {
    "O1": [("x", ("sc", "Int64"))],
    "O2": [("x", ("sc", "Float64")), ("s", ("str",))],
    "O3": [("v", ("arr", "Float64", (3,))), ("n", ("sc", "Int8"))],
    "O4": [("v", ("arr", "Int32", (None,)))],
    "O5": [("m", ("arr", "Float64", (2, 3))), ("t", ("str",))],
    "O6": [("inner", ("hyb", "Inner")), ("k", ("sc", "Int16"))],
    "O7": [("inner", ("hyb", "InnerS")), ("other", ("hyb", "InnerS"))],
    "O8": [("r", ("ref", "Inner")), ("k", ("sc", "Int64"))],
    "O9": [("inner", ("hyb", "Inner")), ("r", ("ref", "InnerS")), ("s", ("sc", "Float64"))],
    "O10": [("x", ("sc", "UInt8")), ("v", ("arr", "Float64", (None,))), ("s", ("str",))],
    "O11": [("piece", ("hyb", "Inner2")), ("s", ("sc", "Int64"))],
    "O12": [("mid", ("hyb", "Mid")), ("t", ("sc", "Float64"))],
    # a part nested by value and a reference of the same class: the part can be lent to the reference field
    "O13": [("inner", ("hyb", "Inner")), ("r", ("ref", "Inner"))],
    "O14": [("mid", ("hyb", "MidR")), ("t", ("sc", "Float64"))],
    # a UNION reference field (members Inner, InnerS) bound to dressed objects
    "O15": [("u", ("ref", "Inner", "union")), ("k", ("sc", "Int64"))],
    # a union reference whose members are a class and a class that nests an object of the first one at its own offset
    "O16": [("u", ("ref", "InnerS", "union", "WrapS")), ("k", ("sc", "Int64"))],
}
RENAMES = ["none", "first", "all"]
TIER = ["quick"]  # (set per shard process; replay uses the widest menus first and falls back)


def describe(tier):
    return dict(
        rule="history system: 13 hybrid class definitions over {scalar, string, scalar arrays 1-D static / 1-D dynamic / 2-D, nested hybrid (static and dynamic), "
        "Ref to hybrid} x 3 rename variants; world = outer object in a traced buffer + helper inner objects in the same and in another buffer (+ for reference-holding classes a second holder whose references are bound from the start); events = "
        "{set scalar/string field, set array whole / element, nested assignment from dict / from a hybrid of the same / another buffer, reference assignment "
        "(same buffer, other buffer -> MemoryError, None, the holder's own nested part), move of a helper (MemoryError while any holder references it), copy (same buffer, other buffer, other context), move (top level; nested and ref-holding -> "
        "MemoryError), write through a dressed child, mutate a source afterwards}; exploration continues after refusals. Oracle at EVERY state: for every "
        "field getattr(h, pyname) equals getattr(h._xobject, xoname) equals the model; every dressed child's _xobject is the container's nested field (same "
        "buffer, same offset); copies independent, references shared; after move every nested dressed part lives in the target buffer.",
        bounds=dict(classes=sorted(OUTERS), renames=RENAMES, depth="3 (2 for renamed variants of classes that nest hybrid objects)" if tier == "quick" else "4 (3 for classes with 3 fields or renamed nesting classes)"),
        assumptions=["by-value assignments use values of fitting size (misfits are C11's business)"],
        must_fire=["set", "setarr", "nest-dict", "nest-hyb", "ref-bind", "copy", "move", "move-refused", "through", "mutate-src"],
    )


def shards(tier, seed):
    """one shard per (class, rename variant, first event): the BFS below each first event is independent"""
    common.quiet()
    out = []
    for o in sorted(OUTERS):
        for r in RENAMES + (["inner"] if any(fs[0] == "hyb" for _, fs in OUTERS[o]) else []):
            try:
                nev = len(World(o, r).events())
            except Exception:
                nev = 1  # (the initial world cannot be built: the shard itself reports it)
            out += [(o, r, i) for i in range(nev)]
    return out[seed % len(out):] + out[: seed % len(out)]


_classes = {}


def get_classes(oname, rename):
    import xobjects as xo

    key = (oname, rename)
    if key in _classes:
        return _classes[key]
    inner = {}

    def ftype(spec):
        if spec[0] == "sc":
            return getattr(xo, spec[1])
        if spec[0] == "str":
            return xo.String
        if spec[0] == "arr":
            sh = tuple(slice(None) if d is None else d for d in spec[2])
            return getattr(xo, spec[1])[sh if len(sh) > 1 else sh[0]]
        if spec[0] == "hyb":
            return inner[spec[1]]
        if spec[0] == "ref" and len(spec) > 2:
            other = spec[3] if len(spec) > 3 else "InnerS"
            return type("Un" + spec[1] + other, (xo.UnionRef,), {"_reftypes": [inner[spec[1]]._XoStruct, inner[other]._XoStruct]})
        if spec[0] == "ref":
            return xo.Ref(inner[spec[1]])

    for nm, fields in INNERS.items():
        # variant "inner": EVERY field of every nested class has another python name (also the fields that link to a further
        # nested class: dictionaries with python names are translated level by level)
        iren = {fn_: "py_" + fn_ for fn_, _ in fields} if rename == "inner" else {}
        inner[nm] = type(nm, (xo.HybridClass,), {"_xofields": {n: ftype(s) for n, s in fields}, "_rename": iren})
    fields = OUTERS[oname]
    ren = {}
    if rename == "first":
        ren = {fields[0][0]: "py_" + fields[0][0]}
    elif rename == "all":
        ren = {n: "py_" + n for n, _ in fields}
    outer = type(oname, (xo.HybridClass,), {"_xofields": {n: ftype(s) for n, s in fields}, "_rename": ren})
    _classes[key] = (outer, inner, ren)
    return _classes[key]


def holds_refs(cname):
    return any(fs[0] == "ref" or (fs[0] == "hyb" and holds_refs(fs[1])) for _, fs in (OUTERS.get(cname) or INNERS[cname]))


def field_specs(cname):
    return dict(OUTERS.get(cname) or INNERS[cname])


def inner2_value(n, split):
    return dict(k=n, x=[n + i for i in range(split[0])], y=[100 + n + i for i in range(split[1])])


def default_value(spec, n):
    if spec == ("hyb", "Inner2"):
        return inner2_value(n, SPLITS["outer"])
    if spec[0] == "sc":
        return float(n) + 0.5 if spec[1].startswith("Float") else (n % 100) + 1
    if spec[0] == "str":
        return "str%02d" % (n % 100)
    if spec[0] == "arr":
        shape = tuple(3 if d is None else d for d in spec[2])
        vals = (np.arange(int(np.prod(shape))) + n).reshape(shape)
        return vals.astype("f8" if spec[1].startswith("Float") else "i8").tolist()
    if spec[0] == "hyb":
        return {fn: default_value(fs, n + 10 + i) for i, (fn, fs) in enumerate(INNERS[spec[1]])}
    if spec[0] == "ref":
        return None
    raise ValueError(spec)


class World:
    def __init__(self, oname, rename):
        self.oname, self.rename = oname, rename
        self.Outer, self.Inner, self.ren = get_classes(oname, rename)
        self.B = place.traced("np", 0)
        self.F = place.traced("np", 0)
        self.C = place.traced("np", 0, context=place.ctx(1))
        self.objs = {}  # id -> dict(cname, h, model)
        self.n = 0
        # helpers: one of every inner class in the same buffer and in a foreign one
        self.helpers = {}
        for nm in INNERS:
            for where, buf in (("same", self.B), ("other", self.F)):
                m = {fn: default_value(fs, 20 + len(self.helpers)) for fn, fs in INNERS[nm]}
                if nm == "Inner2":
                    m = inner2_value(20 + len(self.helpers), SPLITS[where])
                h = self.Inner[nm](_buffer=buf, **self.pykw(nm, m))
                self.helpers[(nm, where)] = self.add(nm, h, m)
        # helpers that hold a reference refer to the Inner helper of their own buffer
        for (nm, where), hid in self.helpers.items():
            for fn, fs in INNERS[nm]:
                if fs[0] == "ref":
                    tid = self.helpers[(fs[1], where)]
                    setattr(self.objs[hid]["h"], self.ipy(nm, fn), self.objs[tid]["h"])
                    self.objs[hid]["m"][fn] = ("id", tid)
        m = {fn: default_value(fs, 3 + i) for i, (fn, fs) in enumerate(OUTERS[oname])}
        kw = {self.ren.get(fn, fn): self.pyval(dict(OUTERS[oname])[fn], v) for fn, v in m.items()}
        self.outer = self.add(oname, self.Outer(_buffer=self.B, **kw), m)
        self.copies = []
        self.extra = None
        # classes holding references: a second holder in the same buffer whose references are bound from the start
        # (an object can be referenced by several holders; one of them letting go does not free it)
        self.sibling = None
        if any(fs[0] == "ref" for _, fs in OUTERS[oname]):
            m2 = {fn: default_value(fs, 7 + i) for i, (fn, fs) in enumerate(OUTERS[oname])}
            kw2 = {self.ren.get(fn, fn): self.pyval(dict(OUTERS[oname])[fn], v) for fn, v in m2.items()}
            if self.rename in ("first", "all"):
                # the dressed objects are given to the CONSTRUCTOR, under the xo names of the (renamed) reference fields
                for fn, fs in OUTERS[oname]:
                    if fs[0] == "ref":
                        sid = self.helpers[(fs[1], "same")]
                        kw2.pop(self.ren.get(fn, fn), None)
                        kw2[fn] = self.objs[sid]["h"]
                        m2[fn] = ("id", sid)
                        self.objs[sid]["movable"] = False
                sib = self.Outer(_buffer=self.B, **kw2)
            else:
                sib = self.Outer(_buffer=self.B, **kw2)
                for fn, fs in OUTERS[oname]:
                    if fs[0] == "ref":
                        sid = self.helpers[(fs[1], "same")]
                        setattr(sib, self.ren.get(fn, fn), self.objs[sid]["h"])
                        m2[fn] = ("id", sid)
            self.sibling = self.add(oname, sib, m2)

    def ipy(self, cname, fn):
        """python name of field fn of the nested class cname"""
        return "py_" + fn if self.rename == "inner" else fn

    def pykw(self, cname, m):
        """a model dictionary of class cname (xo names) as keyword arguments / nested dictionaries with python names"""
        out = {}
        for fn, fs in INNERS[cname]:
            if fn not in m:
                continue
            v = pycopy.deepcopy(m[fn])
            out[self.ipy(cname, fn)] = self.pykw(fs[1], v) if (fs[0] == "hyb" and isinstance(v, dict)) else v
        return out

    def pyval(self, fs, v):
        return self.pykw(fs[1], v) if fs[0] == "hyb" and isinstance(v, dict) else pycopy.deepcopy(v)

    def add(self, cname, h, model):
        i = len(self.objs) + 1
        self.objs[i] = dict(cname=cname, h=h, m=model, movable=True)
        return i

    def dup_refs(self, cname, m):
        """model of a value that crossed buffers: references cannot be shared, the value owns duplicates of the referents"""
        specs = OUTERS.get(cname) or INNERS[cname]
        for fn, fs in specs:
            if fs[0] == "ref" and m[fn] is not None:
                src = m[fn]
                tcn = self.target_class(dict(m=m), fn, fs)
                m[fn] = ("dup", pycopy.deepcopy(self.objs[src[1]]["m"] if src[0] == "id" else self.objs[src[1]]["m"][src[2]] if src[0] == "nested" else src[1]), tcn)
            elif fs[0] == "hyb":
                self.dup_refs(fs[1], m[fn])
        return m

    def target_class(self, o, fn, fs):
        """class of what the field denotes according to the model"""
        mv = o["m"][fn]
        if fs[0] == "hyb" or mv is None:
            return fs[1]
        if mv[0] == "dup":
            return mv[2] if len(mv) > 2 else fs[1]
        if mv[0] == "id":
            return self.objs[mv[1]]["cname"]
        holder = self.objs[mv[1]]["cname"]
        return dict(OUTERS.get(holder) or INNERS[holder])[mv[2]][1]

    def referenced(self, sid):
        return any(isinstance(v, tuple) and v[:2] == ("id", sid) for o in self.objs.values() for v in o["m"].values())

    def pyname(self, oid, fn):
        cn = self.objs[oid]["cname"]
        return self.ren.get(fn, fn) if cn == self.oname else self.ipy(cn, fn)

    # ---- events
    def events(self):
        ev = []
        for oid in [self.outer] + self.copies:
            o = self.objs[oid]
            for fn, fs in OUTERS[self.oname]:
                if fs[0] in ("sc", "str"):
                    ev.append(("set", oid, fn))
                elif fs[0] == "arr":
                    ev.append(("setarr", oid, fn, "whole"))
                    ev.append(("setarr", oid, fn, "elem"))
                elif fs[0] == "hyb":
                    ev.append(("nest-dict", oid, fn))
                    ev.append(("nest-hyb", oid, fn, "same"))
                    ev.append(("nest-hyb", oid, fn, "other"))
                    # the source lives in a third buffer at the very offset the destination field has in its own buffer
                    ev.append(("nest-hyb", oid, fn, "same-offset"))
                    if holds_refs(fs[1]):
                        # the source lives in a third buffer and its referent sits at the very offset at which the
                        # duplicate of that referent is going to be allocated in the destination buffer
                        ev.append(("nest-hyb", oid, fn, "coincident"))
                    ev.append(("through", oid, fn))
                    ev.append(("move-nested", oid, fn))
                    if holds_refs(fs[1]) and (oid == self.outer or TIER[0] == "thorough"):
                        # the reference field of the NESTED part is bound through the part: to the helper of the same buffer
                        # (possibly the very object it denotes already, or denoted before a dictionary nulled it through the
                        # parent), to the helper of the other buffer (refused; it may be the original of what the part
                        # refers to a duplicate of), to nothing
                        for where in ("same", "other", "none"):
                            ev.append(("nest-ref", oid, fn, where))
                elif fs[0] == "ref":
                    ev.append(("ref-bind", oid, fn, "same"))
                    ev.append(("ref-bind", oid, fn, "other"))
                    ev.append(("ref-bind", oid, fn, "none"))
                    for fn2, fs2 in OUTERS[self.oname]:
                        if fs2 == ("hyb", fs[1]) and oid == self.outer:
                            ev.append(("ref-bind", oid, fn, "nested:" + fn2))
                    if len(fs) > 3 and oid == self.outer:
                        ev.append(("ref-bind", oid, fn, "member2"))
                        ev.append(("ref-bind", oid, fn, "member2-first"))
                    if o["m"][fn] is not None:
                        ev.append(("through", oid, fn))
        if not self.copies:
            for dest in ("same", "other", "ctx"):
                ev.append(("copy", dest))
        for dest in ("other", "ctx"):
            ev.append(("move", dest))
        for key in sorted(self.helpers):
            ev.append(("mutate-src", key))
        for key in sorted(self.helpers):
            # helpers of the classes this class refers to (with a second holder) or nests by value: an object that has been
            # MOVED before it is used as a value is part of the histories
            if (self.sibling is not None and any(fs[:2] == ("ref", key[0]) for _, fs in OUTERS[self.oname])) or any(fs[:2] == ("hyb", key[0]) for _, fs in OUTERS[self.oname]):
                ev.append(("move-helper", key))
        # a copy of a PART (nested by value, or bound to a reference field) is an object of its own: it can be moved
        if self.extra is None:
            for fn, fs in OUTERS[self.oname]:
                if fs[0] in ("hyb", "ref") and self.objs[self.outer]["m"][fn] is not None:
                    ev.append(("copy-part", fn))
        else:
            ev.append(("move-extra",))
        return ev

    def apply(self, ev):
        """execute on implementation and model; returns 'refused' when a MemoryError is the expected outcome and it was raised"""
        self.n += 1
        n = self.n
        kind = ev[0]
        if kind == "set":
            _, oid, fn = ev
            o = self.objs[oid]
            fs = field_specs(o["cname"])[fn]
            val = default_value(fs, 40 + n)
            if fs[0] == "str":
                val = ("Z%d" % n + "zzzzzzzz")[: len(o["m"][fn])] if len(o["m"][fn]) else ""
            setattr(o["h"], self.pyname(oid, fn), val)
            o["m"][fn] = val
        elif kind == "setarr":
            _, oid, fn, how = ev
            o = self.objs[oid]
            cur = np.array(o["m"][fn])
            if how == "whole":
                new = (cur + n).tolist()
                setattr(o["h"], self.pyname(oid, fn), np.array(new))
                o["m"][fn] = new
            else:
                idx = tuple(s - 1 for s in cur.shape)
                getattr(o["h"], self.pyname(oid, fn))[idx] = 77 + n
                cur[idx] = 77 + n
                o["m"][fn] = cur.tolist()
        elif kind == "nest-dict":
            _, oid, fn = ev
            o = self.objs[oid]
            fs = field_specs(o["cname"])[fn]
            val = default_value(fs, 60 + n)
            if fs == ("hyb", "Inner2"):
                cur = o["m"][fn]
                val = inner2_value(60 + n, (len(cur["x"]), len(cur["y"])))
            setattr(o["h"], self.pyname(oid, fn), self.pyval(fs, val))
            o["m"][fn] = val
        elif kind == "nest-hyb":
            _, oid, fn, where = ev
            o = self.objs[oid]
            fs = field_specs(o["cname"])[fn]
            if where == "same-offset":
                at = int(getattr(o["h"]._xobject, fn)._offset)
                val = default_value(fs, 80 + n)
                if fs == ("hyb", "Inner2"):
                    cur = o["m"][fn]
                    val = inner2_value(80 + n, (len(cur["x"]), len(cur["y"])))
                G = place.traced("np", 0)
                if at:
                    G.allocate(at)
                srch = self.Inner[fs[1]](_buffer=G, **self.pykw(fs[1], val))
                self.coincident = (at, int(srch._offset))
                self.keep = (G, srch)
                setattr(o["h"], self.pyname(oid, fn), srch)
                o["m"][fn] = val
                return None
            if where == "coincident":
                rf, rs = [(a, b) for a, b in INNERS[fs[1]] if b[0] == "ref"][0]
                tm = {a: default_value(b, 70 + n) for a, b in INNERS[rs[1]]}
                probe = self.Inner[rs[1]](_buffer=place.traced("np", 0), **self.pykw(rs[1], tm))
                size = int(probe._xobject._size)
                dbuf = o["h"]._buffer
                at = dbuf.allocate(size)  # where the next region of that size is going to be handed out
                dbuf.free(at, size)
                G = place.traced("np", 0)
                if at:
                    G.allocate(at)
                tgt = self.Inner[rs[1]](_buffer=G, **self.pykw(rs[1], tm))
                self.coincident = (int(at), int(tgt._offset))
                sm = {a: (default_value(b, 75 + n) if b[0] != "ref" else None) for a, b in INNERS[fs[1]]}
                srch = self.Inner[fs[1]](_buffer=G, **self.pykw(fs[1], sm))
                setattr(srch, self.ipy(fs[1], rf), tgt)
                self.keep = (G, tgt, srch)
                setattr(o["h"], self.pyname(oid, fn), srch)
                sm[rf] = ("dup", tm)
                o["m"][fn] = sm
                return None
            src = self.objs[self.helpers[(fs[1], where)]]
            if fs[1] == "Inner2" and (len(src["m"]["x"]), len(src["m"]["y"])) != (len(o["m"][fn]["x"]), len(o["m"][fn]["y"])):
                # equal total size, other split between the two dynamic fields: every part keeps the room fixed at its
                # creation, so this value does not fit (exactly as the same value given as a dictionary does not)
                try:
                    setattr(o["h"], self.pyname(oid, fn), src["h"])
                except ValueError:
                    return "refused"
                raise AssertionError("by-value assignment that splits the room of the nested part differently accepted")
            setattr(o["h"], self.pyname(oid, fn), src["h"])
            o["m"][fn] = pycopy.deepcopy(src["m"])
            if src["h"]._buffer is not o["h"]._buffer:
                self.dup_refs(fs[1], o["m"][fn])
        elif kind == "nest-ref":
            _, oid, fn, where = ev
            o = self.objs[oid]
            fs = field_specs(o["cname"])[fn]
            rf, rs = [(a, b) for a, b in INNERS[fs[1]] if b[0] == "ref"][0]
            part = getattr(o["h"], self.pyname(oid, fn))
            if where == "none":
                setattr(part, self.ipy(fs[1], rf), None)
                o["m"][fn][rf] = None
                return None
            sid = self.helpers[(rs[1], where)]
            same_buffer = self.objs[sid]["h"]._buffer is o["h"]._buffer
            try:
                setattr(part, self.ipy(fs[1], rf), self.objs[sid]["h"])
            except MemoryError:
                if same_buffer:
                    raise
                return "refused"
            if not same_buffer:
                raise AssertionError("reference (of a nested part) to an object of another buffer accepted")
            o["m"][fn][rf] = ("id", sid)
            self.objs[sid]["movable"] = False
        elif kind == "ref-bind":
            _, oid, fn, where = ev
            o = self.objs[oid]
            fs = field_specs(o["cname"])[fn]
            if where == "none":
                setattr(o["h"], self.pyname(oid, fn), None)
                o["m"][fn] = None
                return None
            if where in ("member2", "member2-first"):
                # the other member of the union (an object of the same buffer) / the part nested at its very offset
                wid = self.helpers[(fs[3], "same")]
                wh = self.objs[wid]["h"]
                if where == "member2":
                    setattr(o["h"], self.pyname(oid, fn), wh)
                    o["m"][fn] = ("id", wid)
                else:
                    pf = INNERS[fs[3]][0][0]
                    setattr(o["h"], self.pyname(oid, fn), getattr(wh, self.ipy(fs[3], pf)))
                    o["m"][fn] = ("nested", wid, pf)
                self.objs[wid]["movable"] = False
                return None
            if where.startswith("nested:"):
                fn2 = where.split(":")[1]
                setattr(o["h"], self.pyname(oid, fn), getattr(o["h"], self.pyname(oid, fn2)))
                o["m"][fn] = ("nested", oid, fn2)
                return None
            sid = self.helpers[(fs[1], where)]
            same_buffer = self.objs[sid]["h"]._buffer is o["h"]._buffer
            try:
                setattr(o["h"], self.pyname(oid, fn), self.objs[sid]["h"])
            except MemoryError:
                if same_buffer:
                    raise
                return "refused"
            if not same_buffer:
                raise AssertionError("reference to an object of another buffer accepted")
            o["m"][fn] = ("id", sid)
            self.objs[sid]["movable"] = False
        elif kind == "through":
            _, oid, fn = ev
            o = self.objs[oid]
            fs = field_specs(o["cname"])[fn]
            child = getattr(o["h"], self.pyname(oid, fn))
            tcn = self.target_class(o, fn, fs)
            if tcn != fs[1]:
                return None  # (writes through the other member are not part of the menu)
            first = INNERS[fs[1]][0][0]
            val = 500 + n
            # (a reference read through a COPY of the holder is a bare struct: xo names)
            setattr(child, self.ipy(fs[1], first) if hasattr(child, "_xobject") else first, val)
            if fs[0] == "hyb":
                o["m"][fn][first] = val
            elif o["m"][fn][0] == "dup":
                o["m"][fn][1][first] = val
            elif o["m"][fn][0] == "nested":
                self.objs[o["m"][fn][1]]["m"][o["m"][fn][2]][first] = val
            else:
                self.objs[o["m"][fn][1]]["m"][first] = val
        elif kind == "move-nested":
            _, oid, fn = ev
            o = self.objs[oid]
            child = getattr(o["h"], self.pyname(oid, fn))
            try:
                child.move(_buffer=self.F)
            except MemoryError:
                return "refused"
            raise AssertionError("move of a nested object accepted")
        elif kind == "copy":
            o = self.objs[self.outer]
            kw = dict(same=dict(_buffer=o["h"]._buffer), other=dict(_buffer=self.F), ctx=dict(_context=place.ctx(1)))[ev[1]]
            c = o["h"].copy(**kw)
            m = pycopy.deepcopy(o["m"])
            if ev[1] != "same":
                # references cannot be shared across buffers: the copy owns duplicates
                self.dup_refs(self.oname, m)
            self.copies.append(self.add(self.oname, c, m))
        elif kind == "move":
            o = self.objs[self.outer]
            has_refs = holds_refs(self.oname)
            kw = dict(other=dict(_buffer=self.F), ctx=dict(_buffer=self.C))[ev[1]]
            try:
                o["h"].move(**kw)
            except MemoryError:
                if has_refs:
                    return "refused"
                raise
            if has_refs:
                raise AssertionError("move of an object that contains references accepted")
        elif kind == "move-helper":
            sid = self.helpers[ev[1]]
            hh = self.objs[sid]["h"]
            dest = self.F if hh._buffer is self.B else self.B
            try:
                hh.move(_buffer=dest)
            except MemoryError:
                return "refused"  # always allowed (an object that was referenced once may stay pinned)
            if self.referenced(sid):
                raise AssertionError("move of an object that a holder still references accepted")
        elif kind == "copy-part":
            o = self.objs[self.outer]
            fn = ev[1]
            fs = field_specs(o["cname"])[fn]
            part = getattr(o["h"], self.pyname(self.outer, fn))
            c = part.copy(_buffer=self.B)
            mv = o["m"][fn]
            m = pycopy.deepcopy(mv if fs[0] == "hyb" else self.objs[mv[1]]["m"] if mv[0] == "id" else self.objs[mv[1]]["m"][mv[2]] if mv[0] == "nested" else mv[1])
            self.extra = self.add(self.target_class(o, fn, fs), c, m)
        elif kind == "move-extra":
            x = self.objs[self.extra]
            dest = self.F if x["h"]._buffer is self.B else self.B
            try:
                x["h"].move(_buffer=dest)
            except MemoryError:
                if holds_refs(x["cname"]):
                    return "refused"
                raise AssertionError("move of a COPY of a part refused (the copy is nested in nothing and referenced by nothing)")
            if holds_refs(x["cname"]):
                raise AssertionError("move of an object that contains references accepted")
        elif kind == "mutate-src":
            s = self.objs[self.helpers[ev[1]]]
            first = [a for a, b in INNERS[ev[1][0]] if b[0] == "sc"][0]
            s["m"][first] = 900 + n
            setattr(s["h"], self.ipy(ev[1][0], first), 900 + n)
        else:
            raise ValueError(ev)
        return None


def val_eq(a, b):
    try:
        return bool(np.array_equal(np.asarray(a, dtype="f8"), np.asarray(b, dtype="f8")))
    except Exception:
        return a == b


def check_obj(w, oid, out, res, path=""):
    """mirror + model oracle for one tracked hybrid object"""
    o = w.objs[oid]
    pn = (lambda fn: w.pyname(oid, fn)) if o["cname"] in OUTERS else (lambda fn: w.ipy(o["cname"], fn))
    check_hybrid(w, o["cname"], o["h"], o["m"], pn, out, res, "obj%d(%s)" % (oid, o["cname"]))


def check_hybrid(w, cname, h, m, pyname, out, res, label):
    specs = OUTERS.get(cname) or INNERS[cname]
    xobj = h._xobject
    for fn, fs in specs:
        try:
            pv = getattr(h, pyname(fn))
            xv = getattr(xobj, fn)
        except Exception as e:
            out.append(("C18.mirror", "attribute-read-raises:" + common.exc_failure(e), "%s.%s: %r" % (label, fn, e)))
            continue
        res.oracles["field"] += 1
        if fs[0] in ("sc", "str"):
            if not (pv == xv):
                out.append(("C18.mirror", "attribute-differs-from-buffer", "%s.%s: attribute %r, buffer %r" % (label, fn, pv, xv)))
            elif not (xv == m[fn]):
                out.append(("C18.value", "field-value", "%s.%s: %r, model %r" % (label, fn, xv, m[fn])))
        elif fs[0] == "arr":
            want = np.array(m[fn])
            try:
                xarr = np.array([xv[idx if len(idx) > 1 else idx[0]] for idx in np.ndindex(*want.shape)]).reshape(want.shape)
            except Exception as e:
                out.append(("C18.mirror", "array-read-raises:" + common.exc_failure(e), "%s.%s" % (label, fn)))
                continue
            if np.asarray(pv).shape != want.shape or not val_eq(pv, xarr):
                out.append(("C18.mirror", "array-attribute-differs-from-buffer", "%s.%s: attribute %r, buffer %r" % (label, fn, np.asarray(pv).tolist(), xarr.tolist())))
            elif not val_eq(xarr, want):
                out.append(("C18.value", "array-value", "%s.%s: %r, model %r" % (label, fn, xarr.tolist(), want.tolist())))
        elif fs[0] == "hyb":
            pxo = pv._xobject if hasattr(pv, "_xobject") else pv
            if not hasattr(pv, "_xobject"):
                out.append(("C18.mirror", "nested-part-not-dressed", "%s.%s is a bare %s" % (label, fn, type(pv).__name__)))
            if pxo._buffer is not xobj._buffer or int(pxo._offset) != int(xv._offset):
                out.append(("C18.mirror", "dressed-child-detached", "%s.%s: dressed child at (%s,%d), container's field at (%s,%d)" % (label, fn, "same buffer" if pxo._buffer is xobj._buffer else "OTHER buffer", int(pxo._offset), "container buffer", int(xv._offset))))
                continue
            if hasattr(pv, "_xobject"):
                check_hybrid(w, fs[1], pv, m[fn], lambda f, c=fs[1]: w.ipy(c, f), out, res, label + "." + fn)
        elif fs[0] == "ref":
            mv = m[fn]
            if mv is None:
                if xv is not None:
                    out.append(("C18.value", "null-reference-resolves", "%s.%s" % (label, fn)))
                if pv is not None:
                    out.append(("C18.mirror", "attribute-differs-from-buffer", "%s.%s: attribute is %s, buffer holds a null reference" % (label, fn, type(pv).__name__)))
                continue
            if xv is None:
                out.append(("C18.value", "bound-reference-is-null", "%s.%s" % (label, fn)))
                continue
            pxo = pv._xobject if hasattr(pv, "_xobject") else pv
            if pxo is None or pxo._buffer is not xv._buffer or int(pxo._offset) != int(xv._offset):
                out.append(("C18.mirror", "attribute-differs-from-buffer", "%s.%s: attribute denotes offset %s%s, the buffer's reference resolves to %d" % (label, fn, None if pxo is None else int(pxo._offset), " of ANOTHER buffer" if (pxo is not None and pxo._buffer is not xv._buffer) else "", int(xv._offset))))
                continue
            if xv._buffer is not xobj._buffer:
                out.append(("C18.ownership", "reference-leaves-buffer", "%s.%s" % (label, fn)))
            if mv[0] == "id":
                tgt = w.objs[mv[1]]
                if int(xv._offset) != int(tgt["h"]._offset) or xv._buffer is not tgt["h"]._buffer:
                    out.append(("C18.share", "reference-not-shared", "%s.%s resolves to %d, the bound object lives at %d" % (label, fn, int(xv._offset), int(tgt["h"]._offset))))
                tm = tgt["m"]
            elif mv[0] == "nested":
                part = getattr(w.objs[mv[1]]["h"]._xobject, mv[2])
                if int(xv._offset) != int(part._offset) or xv._buffer is not part._buffer:
                    out.append(("C18.share", "reference-not-shared", "%s.%s resolves to %d, the lent nested part lives at %d" % (label, fn, int(xv._offset), int(part._offset))))
                tm = w.objs[mv[1]]["m"][mv[2]]
            else:
                tm = mv[1]
            tcn = w.target_class(dict(m=m), fn, fs)
            if type(xv).__name__ != tcn + "Data":
                out.append(("C18.value", "reference-target-type", "%s.%s: the buffer's reference denotes a %s, the object bound is a %s" % (label, fn, type(xv).__name__, tcn)))
                continue
            # value of the target through the raw xobject
            for tfn, tfs in INNERS[tcn]:
                tv = getattr(xv, tfn)
                if tfs[0] == "hyb":
                    continue
                if tfs[0] == "sc" and tv != tm[tfn]:
                    out.append(("C18.value", "reference-target-value", "%s.%s.%s: %r, model %r" % (label, fn, tfn, tv, tm[tfn])))
                if tfs[0] == "arr" and not val_eq([tv[i] for i in range(len(tm[tfn]))], tm[tfn]):
                    out.append(("C18.value", "reference-target-value", "%s.%s.%s" % (label, fn, tfn)))


def check_world(w, res, moved_to=None):
    out = []
    for oid in list(w.objs):
        try:
            check_obj(w, oid, out, res)
        except Exception as e:
            out.append(("C18.mirror", "check-raises:" + common.exc_failure(e), "obj%d: %r" % (oid, e)))
    # ownership after copy / move: every nested dressed part of an object lives in the object's own buffer
    for oid in [w.outer] + w.copies:
        o = w.objs[oid]
        for fn, fs in OUTERS[w.oname]:
            if fs[0] == "hyb":
                try:
                    ch = getattr(o["h"], w.pyname(oid, fn))
                    if hasattr(ch, "_xobject") and ch._xobject._buffer is not o["h"]._xobject._buffer:
                        out.append(("C18.ownership", "nested-part-in-other-buffer", "obj%d.%s" % (oid, fn)))
                except Exception:
                    pass
    if moved_to is not None and w.objs[w.outer]["h"]._buffer is not moved_to:
        out.append(("C18.move", "object-not-in-target-buffer", ""))
    return out


def touch(w):
    """all attributes of all tracked objects are read (one nesting level deep) after every event of a history"""
    for oid, o in w.objs.items():
        specs = OUTERS.get(o["cname"]) or INNERS[o["cname"]]
        for fn, fs in specs:
            try:
                x = getattr(o["h"], w.pyname(oid, fn))
                if fs[0] in ("hyb", "ref") and x is not None:
                    for sfn, sfs in INNERS[fs[1]]:
                        getattr(x, sfn)
            except Exception:
                pass


def build(oname, rename, hist):
    w = World(oname, rename)
    touch(w)
    for ev in hist:
        w.apply(ev)
        touch(w)
    return w


def canon(w):
    return hashlib.sha1(place.whole(w.B) + place.whole(w.F) + place.whole(w.C) + repr([(i, repr(o["m"]), int(o["h"]._offset), o["h"]._buffer is w.B) for i, o in sorted(w.objs.items())]).encode()).digest()


def step(w, ev, res):
    before_buf = w.objs[w.outer]["h"]._buffer
    try:
        with common.Watchdog(30):
            r = w.apply(ev)
    except AssertionError as e:
        return [("C18.refuses", "accepted:" + ev[0], str(e))], None
    except Exception as e:
        return [("C18.accepts", "event-raises:" + ev[0] + ":" + common.exc_failure(e), repr(e))], None
    moved_to = None
    if ev[0] == "move" and r is None:
        moved_to = w.F if ev[1] == "other" else w.C
    return check_world(w, res, moved_to), r


def run_shard(shard, tier, seed):
    oname, rename, first = shard
    res = common.ShardResult()
    TIER[0] = tier
    depth = 3 if tier == "quick" else 4
    if tier == "thorough" and len(OUTERS[oname]) > 2:
        depth = 3
    if sum(1 for _, fs in OUTERS[oname] if fs[0] == "hyb") and rename != "none":
        depth -= 1  # classes nesting hybrid objects have the widest menus: full depth without renaming, one less with it
    feats = dict(cls=oname, rename=rename, kinds=sorted({fs[0] for _, fs in OUTERS[oname]}))
    sig = set()

    def report(probs, hist, hidx, ev, ei, refused):
        for o, f, d in probs:
            res.outcomes["bad:" + f.split(":")[0]] += 1
            if (o, f) in sig:
                continue
            sig.add((o, f))
            fe = dict(feats, event=ev[0] if ev else "initial", after_refusal=bool(refused), depth=len(hist) + (1 if ev else 0), event_detail=str(ev[3]) if ev and len(ev) > 3 else (str(ev[1]) if ev and len(ev) > 1 else None))
            res.violations.append(common.violation(o, f, fe, dict(cls=oname, rename=rename, tier=tier, hist_idx=hidx, ev_idx=ei, history=[list(map(str, e)) for e in hist], event=list(map(str, ev)) if ev else None), d))

    try:
        build(oname, rename, [])
    except Exception as e:
        # the objects of the initial world are built from plain data / dictionaries with python names: legal constructions
        res.violations.append(common.violation("C18.accepts", "construction-raises:" + common.exc_failure(e), dict(feats, event="initial", depth=0),
                                               dict(cls=oname, rename=rename, hist_idx=[], ev_idx=None, history=[], event=None), repr(e)))
        return res
    seen = set()
    if first == 0:
        w0 = build(oname, rename, [])
        res.cases += 1
        report(check_world(w0, res), [], [], None, None, False)
        seen.add(canon(w0))
    frontier = [([], [])]
    for d in range(depth):
        nf = []
        for hist, hidx in frontier:
            wb = build(oname, rename, hist)
            evs = wb.events()
            for ei, ev in enumerate(evs):
                if d == 0 and ei != first:
                    continue
                w = build(oname, rename, hist)
                probs, r = step(w, ev, res)
                res.transitions += 1
                name = ev[0] + ("-refused" if r == "refused" else "")
                res.events[name if name in ("move-refused",) else ev[0]] += 1
                if r == "refused" and ev[0] in ("move", "move-nested", "move-helper", "move-extra"):
                    res.events["move-refused"] += 1
                if probs:
                    report(probs, hist, hidx, ev, ei, r == "refused")
                    continue
                res.outcomes["ok:" + ev[0] + (":refused" if r == "refused" else "")] += 1
                k = canon(w)
                if k not in seen:
                    seen.add(k)
                    nf.append((hist + [ev], hidx + [ei]))
        res.max_depth = d + 1
        frontier = nf
    res.states = res.nontrivial = len(seen)
    if first == 0:
        res.sample(dict(cls=oname, rename=rename, fields=[(n, list(map(str, s))) for n, s in OUTERS[oname]], states_below_first_event=len(seen)))
    return res


def replay(case):
    oname, rename = case["cls"], case["rename"]
    TIER[0] = case.get("tier", "quick")
    hist = []
    for i in case["hist_idx"]:
        hist.append(build(oname, rename, hist).events()[i])
    res = common.ShardResult()
    w = build(oname, rename, hist)
    if case["ev_idx"] is None:
        return check_world(w, res)
    ev = w.events()[case["ev_idx"]]
    probs, r = step(w, ev, res)
    return probs
