"""C20: pickled objects come back usable, equal, and sharing what they shared (DESIGN.md 2/C20)."""
import hashlib
import itertools
import pickle

import numpy as np

from . import alloc_model, common, cons, hand, hist, place, xt

PID = "C20"

GROUPS = ["one", "two-shared", "two-separate", "three-mixed", "bytearray-shared", "hole-in-the-middle", "explicit-offset", "bytearray-hole", "grown-shared", "aligned-shared", "aligned-bytearray"]


def describe(tier):
    return dict(
        rule="case + history system: importable struct, array-subclass and hybrid classes (module xoverif.pickle_types, built at import time from the harness AST) "
        "x values {ramp, extreme, minimal} x groups {one object; two in one buffer; two in two buffers; three over two buffers; two in one BufferByteArray}: "
        "pickle.loads(pickle.dumps(objs)) must give equal values at every field (full read through every accessor), a' and b' share a buffer iff a and b "
        "did, the unpickled objects are independent of the originals; then depth-%d histories over {write any leaf on the original, on the unpickled object, "
        "allocate / free on the unpickled buffer}: both sides keep agreeing with the model; the unpickled buffer stays a working allocator (in bounds, no "
        "overlap with the unpickled objects, free total consistent with a byte-map model seeded from its free list)." % (1 if tier == "quick" else 2),
        bounds=dict(groups=GROUPS, contexts=CTXKINDS, values=cons.VMODES, protocol=[pickle.DEFAULT_PROTOCOL, 0, 1] + ([2] if tier == "thorough" else [])),
        assumptions=["the context of an unpickled object is a fresh serial CPU context (kernels are not pickled)"],
        must_fire=["pickle", "write-orig", "write-new", "alloc"],
    )


def shards(tier, seed):
    from . import pickle_types as pt

    out = [("xo", name) for name in pt.TYPES] + [("hyb", name) for name in pt.HYBRIDS]
    return out[seed % len(out):] + out[: seed % len(out)]


_CTXKIND = ["serial"]
CTXKINDS = ["serial", "omp", "serial-built", "omp-built"]  # "-built": kernels have been compiled on the context before anything is pickled
_built = {}


def context_of_kind(kind):
    import xobjects as xo

    if kind == "serial":
        return xo.ContextCpu()
    if kind == "omp":
        return xo.ContextCpu(omp_num_threads=2)
    if kind not in _built:
        ctx = xo.ContextCpu(omp_num_threads=2 if kind.startswith("omp") else 0)
        ctx.add_kernels(sources=["double c20_twice(double x){ return 2*x; }"], kernels={"c20_twice": xo.Kernel(args=[xo.Arg(xo.Float64, name="x")], ret=xo.Arg(xo.Float64))},
                        extra_compile_args=("-O0", "-w"), extra_link_args=())
        assert ctx.kernels.c20_twice(x=1.5) == 3.0
        _built[kind] = ctx
    return _built[kind]


def make_group(group, make, make_at=None):
    """returns list of objects; make(buf, n) constructs object number n in buffer buf, make_at(buf, n, offset) at an explicit offset"""
    import xobjects as xo
    from xobjects.context_cpu import BufferByteArray

    ctx = context_of_kind(_CTXKIND[0])
    b1 = ctx.new_buffer(64)
    b2 = ctx.new_buffer(0)
    if group == "one":
        return [make(b1, 0)]
    if group == "two-shared":
        return [make(b1, 0), make(b1, 1)]
    if group == "two-separate":
        return [make(b1, 0), make(b2, 1)]
    if group == "three-mixed":
        return [make(b1, 0), make(b2, 1), make(b1, 2)]
    if group in ("hole-in-the-middle", "bytearray-hole"):
        # the buffer's free room is not all at the end: a region between two live objects was used and freed
        b = b1 if group == "hole-in-the-middle" else BufferByteArray(capacity=32, context=ctx)
        o0 = make(b, 0)
        gap = b.allocate(24)
        b.update_from_buffer(gap, bytes(range(1, 25)))
        o1 = make(b, 1)
        b.free(gap, 24)
        return [o0, o1]
    if group == "explicit-offset":
        # an object placed by the caller at an explicit offset the allocator does not know about
        big = ctx.new_buffer(4096)
        o0 = make(big, 0)
        o1 = make_at(big, 1, 2048)
        return [o0, o1]
    if group == "grown-shared":
        # the shared buffer has GROWN (more than once) before anything is pickled
        bg = ctx.new_buffer(8)
        return [make(bg, 0), make(bg, 1), make(bg, 2)]
    if group in ("aligned-shared", "aligned-bytearray"):
        # the shared buffer was built with an alignment of its own (not the context's minimum); an odd allocation in front
        from xobjects.context_cpu import BufferNumpy

        ba = (BufferNumpy if group == "aligned-shared" else BufferByteArray)(capacity=48, context=ctx, default_alignment=16)
        ba.allocate(3)
        return [make(ba, 0), make(ba, 1)]
    if group == "bytearray-shared":
        b3 = BufferByteArray(capacity=16, context=ctx)
        return [make(b3, 0), make(b3, 1)]
    raise ValueError(group)


def extent(x):
    xo_ = x._xobject if hasattr(x, "_xobject") else x
    return int(xo_._offset), hand.size_of(xo_)


def allocator_check(buf, objs, res, explicit=False, align=None):
    """the unpickled buffer as an allocator: allocate/free a few regions, judged against a byte map seeded from its own free list"""
    out = []
    cap = buf.capacity
    if align is None:
        align = buf.default_alignment
    elif buf.default_alignment != align:  # the alignment the buffer was BUILT with (read off the original), not what the copy claims
        out.append(("C20.allocator", "alignment-forgotten", "buffer built with default_alignment=%r reports %r after unpickling" % (align, buf.default_alignment)))
    m = alloc_model.ByteMap(cap)
    free = set()
    for ch in buf.chunks:
        free.update(range(ch.start, ch.end))
    for i in range(cap):
        if i not in free:
            m.m[i] = 99  # live or lost: unknown owner, not reusable
    live = [extent(o) for o in objs if (o._xobject if hasattr(o, "_xobject") else o)._buffer is buf]
    live = [(off, sz) for off, sz in live if not explicit or off < 2048]  # explicit-offset objects are unknown to the allocator by design
    for off, sz in live:
        if any(i in free for i in range(off, off + sz)):
            out.append(("C20.allocator", "live-object-in-free-list", "object [%d,%d) overlaps the free list %r" % (off, off + sz, buf.chunks)))
            return out
    if buf.get_free() != len(free):
        out.append(("C20.allocator", "free-total", "get_free()=%d, free list covers %d bytes" % (buf.get_free(), len(free))))
    got = []
    for size in (8, 3, 16, 1):
        res.transitions += 1
        res.events["alloc"] += 1
        try:
            off = buf.allocate(size)
        except Exception as e:
            out.append(("C20.allocator", "allocate-raises:" + common.exc_failure(e), repr(e)))
            return out
        if off < 0 or off + size > buf.capacity:
            out.append(("C20.allocator", "out-of-bounds", "%d+%d > %d" % (off, size, buf.capacity)))
        for o2, s2 in live + got:
            if off < o2 + s2 and o2 < off + size:
                out.append(("C20.allocator", "overlaps-live", "allocate(%d) -> %d overlaps [%d,%d)" % (size, off, o2, o2 + s2)))
        if buf.capacity == cap:
            fit = m.first_fit(size, align)
            if fit is None or fit[1] != off:
                out.append(("C20.allocator", "not-first-fit", "allocate(%d) -> %d, byte map says %r" % (size, off, fit)))
            else:
                m.take(fit[0], off, size, 7)
        else:
            m.extend(buf.capacity)
            cap = buf.capacity
            fit = m.first_fit(size, align)
            if fit is not None and fit[1] == off:
                m.take(fit[0], off, size, 7)
            else:
                for i in range(off, off + size):
                    m.m[i] = 7
        buf.update_from_buffer(off, bytes([0xEE]) * size)
        got.append((off, size))
    for off, size in got[::2]:
        try:
            buf.free(off, size)
        except Exception as e:
            out.append(("C20.allocator", "free-raises:" + common.exc_failure(e), repr(e)))
    return out


# ---------------------------------------------------------------- xobject types


def run_xo(name, tier, res, seed):
    from . import pickle_types as pt

    t, cls = pt.TYPES[name]
    protos = [pickle.DEFAULT_PROTOCOL, 2] if tier == "thorough" else [pickle.DEFAULT_PROTOCOL]
    sig = set()
    depth = 1 if tier == "quick" else 2

    def bad(oracle, failure, feat, case, detail):
        res.outcomes["bad:" + failure.split(":")[0]] += 1
        if (oracle, failure) in sig:
            return
        sig.add((oracle, failure))
        res.violations.append(common.violation(oracle, failure, feat, case, detail))

    combos = [(vm, g, pr, "serial") for vm, g, pr in itertools.product(cons.VMODES, GROUPS, protos)] + [("ramp", g, protos[0], k) for g in ("one", "two-shared") for k in CTXKINDS[1:]]
    # the oldest protocols (text / binary without object support for classes with slots etc.) on every group
    combos += [("ramp", g, pr, "serial") for g in GROUPS for pr in (0, 1)]
    for vmode, group, proto, ctxkind in combos:
        _CTXKIND[0] = ctxkind
        f = cons.feats(t, vmode, "py", group)
        f.update(group=group, cls=name, context=ctxkind, dyn_fields=sum(1 for _, ft in t[1] if xt.is_dyn(ft)) if t[0] == "St" else None)
        cid = dict(part="xo", name=name, type_str=xt.show(t), vmode=vmode, group=group, proto=proto, context=ctxkind)
        vals = []

        def make(buf, n):
            v = xt.gen(t, vmode, xt.Ctr(n * 40))
            vals.append(v)
            return cls(cons.base_arg(t, v), _buffer=buf)

        def make_at(buf, n, offset):
            v = xt.gen(t, vmode, xt.Ctr(n * 40))
            vals.append(v)
            return cls(cons.base_arg(t, v), _buffer=buf, _offset=offset)

        def world(writes):
            """fresh originals + unpickled copies, then replay writes [(side, k, path, value)]"""
            del vals[:]
            objs = make_group(group, make, make_at)
            for o_ in objs:  # handles that have been used (read in full, structure walked) are what gets pickled
                xt.read(t, o_)
                hand.snap(t, o_)
            new = pickle.loads(pickle.dumps(objs, protocol=proto))
            mo, mn = list(vals), list(vals)
            for side, k, path, val in writes:
                hand.assign(t, (objs if side == "orig" else new)[k], path, val)
                if side == "orig":
                    mo[k] = xt.set_path(mo[k], path, val)
                else:
                    mn[k] = xt.set_path(mn[k], path, val)
            return objs, new, mo, mn

        try:
            del vals[:]
            objs = make_group(group, make, make_at)
            if not all(xt.veq(xt.read(t, o), v) for o, v in zip(objs, vals)):
                res.skipped["initial-readback(C01's business)"] += 1
                continue
        except Exception as e:
            res.skipped["construct(C01's business):" + common.exc_failure(e)] += 1
            continue
        res.cases += 1
        res.transitions += 1
        res.events["pickle"] += 1
        try:
            objs, new, mo, mn = world([])
        except Exception as e:
            bad("C20.pickle", "pickle-raises:" + common.exc_failure(e), f, cid, repr(e))
            continue

        def check(objs, new, mo, mn, label):
            for k, (o, n, vo, vn) in enumerate(zip(objs, new, mo, mn)):
                if type(n) is not type(o):
                    return ("C20.class", "class-differs", "%s vs %s" % (type(n), type(o)))
                try:
                    gn = xt.read(t, n)
                except Exception as e:
                    return ("C20.usable", "read-raises:" + common.exc_failure(e), "%s object %d: %r" % (label, k, e))
                res.oracles["equal"] += 1
                if not xt.veq(gn, vn):
                    return ("C20.equal", "unpickled-value-differs", "%s object %d: first difference at %r: %s" % ((label, k) + xt.vdiff(gn, vn)))
                go = xt.read(t, o)
                if not xt.veq(go, vo):
                    return ("C20.independent", "original-changed", "%s object %d: first difference at %r: %s" % ((label, k) + xt.vdiff(go, vo)))
                if n._buffer is o._buffer:
                    return ("C20.independent", "same-buffer-object", "object %d" % k)
                try:
                    sn = hand.snap(t, n, base=int(n._offset))  # every structural accessor (sizes, offsets, shapes) usable on the unpickled object
                    so = hand.snap(t, o, base=int(o._offset))
                except Exception as e:
                    return ("C20.usable", "structure-accessor-raises:" + common.exc_failure(e), "%s object %d: %r" % (label, k, e))
                if not xt.has_refs(t) and sn != so:
                    ks = [q for q in so if so.get(q) != sn.get(q)]
                    return ("C20.equal", "structure-differs", "%s object %d at %r: original %r unpickled %r" % (label, k, ks[:1], so.get(ks[0]) if ks else None, sn.get(ks[0]) if ks else None))
                # the cached structure of the handle itself (what whole-value uses such as copies read)
                for attr in ("_size", "_shape", "_strides"):
                    a1, a2 = getattr(o, attr, "absent"), getattr(n, attr, "absent")
                    norm = lambda v: tuple(int(x) for x in v) if isinstance(v, (list, tuple, np.ndarray)) else (v if v in (None, "absent") else int(v))
                    if norm(a1) != norm(a2):
                        return ("C20.usable", "cached-structure-differs:" + attr, "%s object %d: %s is %r on the original and %r after unpickling" % (label, k, attr, a1, a2))
                # use as a whole value: copy-construct from the unpickled object into its own buffer and into a fresh one
                if label == "after unpickling":
                    for kw in (dict(_buffer=n._buffer), dict()):
                        try:
                            c = type(n)(n, **kw)
                            gc = xt.read(t, c)
                        except Exception as e:
                            return ("C20.usable", "copy-of-unpickled-raises:" + common.exc_failure(e), "object %d: %r" % (k, e))
                        if not xt.veq(gc, vn):
                            return ("C20.usable", "copy-of-unpickled-differs", "object %d: first difference at %r: %s" % ((k,) + xt.vdiff(gc, vn)))
            for a, b in itertools.combinations(range(len(objs)), 2):
                res.oracles["sharing"] += 1
                if (objs[a]._buffer is objs[b]._buffer) != (new[a]._buffer is new[b]._buffer):
                    return ("C20.sharing", "buffer-sharing-changed", "objects %d,%d shared=%s before, %s after" % (a, b, objs[a]._buffer is objs[b]._buffer, new[a]._buffer is new[b]._buffer))
            return None

        r = check(objs, new, mo, mn, "after unpickling")
        if r:
            bad(r[0], r[1], f, cid, r[2])
            continue
        res.states += 1
        # objects that have been handed to a compiled kernel BEFORE they are pickled: a kernel called with the unpickled object
        # afterwards must receive the address of the unpickled object's own bytes
        if ctxkind.endswith("-built") and t[0] in ("St", "A"):
            import xobjects as xo

            res.transitions += 2
            res.events["kernel-before-and-after"] += 1
            try:
                kctx = context_of_kind(ctxkind)
                kname = "c20_addr_" + cls.__name__
                if kname not in kctx.kernels:
                    kctx.add_kernels(sources=["int64_t %s(%s obj){ return (int64_t)(size_t) obj; }" % (kname, cls.__name__)],
                                     kernels={kname: xo.Kernel(args=[xo.Arg(cls, name="obj")], ret=xo.Arg(xo.Int64), c_name=kname)}, extra_compile_args=("-O0", "-w"), extra_link_args=())
                addr = lambda o_: int(np.frombuffer(o_._buffer.buffer, dtype="int8").ctypes.data) + int(o_._offset)
                del vals[:]
                objs = make_group(group, make, make_at)
                r = None
                for o_ in objs:
                    if int(kctx.kernels[kname](obj=o_)) != addr(o_):
                        r = ("C20.usable", "kernel-receives-wrong-address", "original object, before pickling")
                new = pickle.loads(pickle.dumps(objs, protocol=proto))
                for k_, n_ in enumerate(new):
                    got = int(kctx.kernels[kname](obj=n_))
                    if r is None and got != addr(n_):
                        r = ("C20.independent" if got == addr(objs[k_]) else "C20.usable", "kernel-on-unpickled-object-receives-another-address",
                             "object %d: the kernel received %#x, the unpickled object's bytes are at %#x (the original's at %#x)" % (k_, got, addr(n_), addr(objs[k_])))
                if r:
                    bad(r[0], r[1], dict(f, history="kernel-before-pickling"), dict(cid, history="kernel-before-pickling"), r[2])
                    continue
            except Exception as e:
                bad("C20.usable", "kernel-call-raises:" + common.exc_failure(e), dict(f, history="kernel-before-pickling"), dict(cid, history="kernel-before-pickling"), repr(e)[-600:])
                continue
        # the same pickle loaded TWICE in this process (the first result kept and written), and a second generation (an
        # unpickled object pickled again): every load is an object of its own
        res.transitions += 3
        res.events["load-again"] += 1
        try:
            del vals[:]
            objs = make_group(group, make, make_at)
            data = pickle.dumps(objs, protocol=proto)
            a = pickle.loads(data)
            ma = list(vals)
            for k, mv in enumerate(ma):
                leaves = [(p_, lt, lv) for p_, lt, lv in xt.leaf_paths(t, mv) if p_ and not any(q in ("*", "#") for q in p_)]
                for p_, lt, lv in leaves[:1]:
                    cnd = hist.leaf_candidates(lt, lv, hist.string_room(lv) if lt[0] == "Str" else 0, k)
                    if cnd:
                        hand.assign(t, a[k], p_, cnd[0])
                        ma[k] = xt.set_path(ma[k], p_, cnd[0])
            b = pickle.loads(data)
            g2 = pickle.loads(pickle.dumps(a, protocol=proto))
            r = None
            if any(x._buffer is y._buffer for x in a for y in b):
                r = ("C20.independent", "two-loads-share-a-buffer", "the second load of the same pickle handed out objects in the buffer of the first")
            elif not all(xt.veq(xt.read(t, x), m_) for x, m_ in zip(a, ma)):
                r = ("C20.independent", "second-load-changed-the-first", "objects of the first load no longer read what was written to them")
            elif not all(xt.veq(xt.read(t, x), m_) for x, m_ in zip(b, vals)):
                r = ("C20.equal", "second-load-differs", "")
            elif any(x._buffer is y._buffer for x in a for y in g2):
                r = ("C20.independent", "second-generation-shares-a-buffer", "an unpickled object pickled again came back in its own buffer")
            elif not all(xt.veq(xt.read(t, x), m_) for x, m_ in zip(g2, ma)):
                r = ("C20.equal", "second-generation-differs", "")
            if r:
                bad(r[0], r[1], dict(f, history="load-again"), dict(cid, history="load-again"), r[2])
                continue
        except Exception as e:
            bad("C20.pickle", "load-again-raises:" + common.exc_failure(e), dict(f, history="load-again"), dict(cid, history="load-again"), repr(e))
            continue
        # histories of writes on either side
        frontier = [[]]
        for d in range(depth):
            nf = []
            for ws in frontier:
                objs, new, mo, mn = world(ws)
                menu = []
                for side, models in (("orig", mo), ("new", mn)):
                    for k, mv in enumerate(models):
                        leaves = [(p, lt, lv) for p, lt, lv in xt.leaf_paths(t, mv) if p]
                        for p, lt, lv in leaves[:: max(1, len(leaves) // 4)][:5]:
                            c = hist.leaf_candidates(lt, lv, hist.string_room(lv) if lt[0] == "Str" else 0, d * 3 + k)
                            if c:
                                menu.append((side, k, p, c[0]))
                if d == 0:
                    menu0 = list(menu)
                for w in menu:
                    res.transitions += 1
                    res.events["write-" + w[0]] += 1
                    try:
                        o2, n2, mo2, mn2 = world(ws + [w])
                    except Exception as e:
                        if w[0] == "new":
                            bad("C20.usable", "write-on-unpickled-raises:" + common.exc_failure(e), dict(f, through_ref=any(q in ("*", "#") for q in w[2])), dict(cid, writes=common.jsonable([list(x) for x in ws + [w]])), repr(e))
                        else:
                            res.skipped["write-refused-on-original(C10's business)"] += 1
                        continue
                    r = check(o2, n2, mo2, mn2, "after %s" % (common.jsonable(list(w)),))
                    if r:
                        bad(r[0], r[1], dict(f, side=w[0]), dict(cid, writes=common.jsonable([list(x) for x in ws + [w]])), r[2])
                        continue
                    res.states += 1
                    nf.append(ws + [w])
            frontier = nf[:40]
        # the unpickled buffers as allocators: straight after unpickling, and after a first write on the unpickled side; then
        # every unpickled buffer is made to GROW (a request of its whole capacity) and everything is read again
        first_new = [w for w in (menu0 if "menu0" in dir() else []) if w[0] == "new"][:1]
        for ws in [[]] + [[w] for w in first_new]:
            try:
                objs, new, mo, mn = world(ws)
            except Exception:
                continue  # (reported by the write histories above)
            seenb = []
            for i_, n_ in enumerate(new):
                if not any(n_._buffer is b for b in seenb):
                    seenb.append(n_._buffer)
                    for o_, f_, d_ in allocator_check(n_._buffer, new, res, explicit=(group == "explicit-offset"), align=objs[i_]._buffer.default_alignment):
                        bad(o_, f_, f, dict(cid, writes=common.jsonable([list(x) for x in ws])), d_)
            r = check(objs, new, mo, mn, "after allocating on the unpickled buffers")
            if not r:
                for b_ in seenb:
                    res.transitions += 1
                    res.events["grow-unpickled"] += 1
                    try:
                        b_.allocate(b_.capacity + 8)
                    except Exception as e:
                        bad("C20.allocator", "allocate-raises:" + common.exc_failure(e), f, dict(cid, writes=common.jsonable([list(x) for x in ws])), repr(e))
                r = check(objs, new, mo, mn, "after the unpickled buffers have grown (writes before: %r)" % (common.jsonable([list(x) for x in ws]),))
            if r:
                bad(r[0], r[1], f, dict(cid, writes=common.jsonable([list(x) for x in ws])), r[2])
            else:
                res.outcomes["ok"] += 1
    res.max_depth = depth + 1
    res.sample(dict(cls=name, type=xt.show(t), groups=GROUPS))


# ---------------------------------------------------------------- hybrid classes


def hyb_make(name):
    from . import pickle_types as pt

    H = pt.HYBRIDS

    def make(buf, n):
        if name == "PH1":
            return H["PH1"](x=10 + n, v=[1.5 + n, 2.5, 3.5], _buffer=buf)
        if name == "PH2":
            return H["PH2"](inner=dict(x=20 + n, v=[float(n), 7.0]), label="lab%d" % n, w=[n, n + 1, n + 2], _buffer=buf)
        if name == "PH4":
            return H["PH4"](w=[n, 5, 6, 7], s="s%d" % n, inner=dict(x=40 + n, v=[float(n), 1.0, 2.0]), deep=dict(inner=dict(x=50 + n, v=[3.0]), label="deep%d" % n, w=[n, 9]), k=n, _buffer=buf)
        inner = H["PH1"](x=30 + n, v=[9.0, float(n)], _buffer=buf)
        return H["PH3"](r=inner, k=n, _buffer=buf)

    return make


def hyb_read(name, h):
    if name == "PH1":
        return dict(x=int(h.x), v=np.asarray(h.v).tolist(), x2=int(h._xobject.x), v2=[float(h._xobject.v[i]) for i in range(len(h._xobject.v))])
    if name == "PH2":
        return dict(inner=hyb_read("PH1", h.inner), label=h.label, s2=h._xobject.s, w=np.asarray(h.w).tolist())
    if name == "PH4":
        return dict(w=np.asarray(h.w).tolist(), s=h.s, inner=hyb_read("PH1", h.inner), deep=hyb_read("PH2", h.deep), k=int(h.k))
    r = h.r
    return dict(k=int(h.k), rx=int(r.x), rv=[float(x) for x in np.asarray(r.v if hasattr(r, "_xobject") else r.v.to_nparray())])


def hyb_write(name, h, n):
    if name == "PH1":
        h.x = 1000 + n
        h.v[0] = 0.25
    elif name == "PH2":
        h.inner.x = 2000 + n
        h.w[1] = 77
        h.label = "L%d" % (n % 10)
    elif name == "PH4":
        h.inner.x = 4000 + n
        h.inner.v[1] = 0.5
        h.deep.inner.x = 4100 + n
        h.deep.label = "D%d" % (n % 10)
        h.w[0] = 44
    else:
        h.k = 3000 + n
        h.r.x = 3100 + n


def run_hyb(name, tier, res, seed):
    sig = set()

    def bad(oracle, failure, feat, case, detail):
        res.outcomes["bad:" + failure.split(":")[0]] += 1
        if (oracle, failure) in sig:
            return
        sig.add((oracle, failure))
        res.violations.append(common.violation(oracle, failure, feat, case, detail))

    make = hyb_make(name)

    def make_at(buf, n, offset):
        raise NotImplementedError

    for group, ctxkind, proto in [(g, "serial", pr) for g in GROUPS if g != "explicit-offset" for pr in (pickle.DEFAULT_PROTOCOL, 0, 1)] + [(g, k, pickle.DEFAULT_PROTOCOL) for g in ("one", "two-shared") for k in CTXKINDS[1:]]:
        _CTXKIND[0] = ctxkind
        f = dict(cls=name, group=group, hybrid=True, context=ctxkind, proto=proto)
        cid = dict(part="hyb", name=name, group=group, context=ctxkind, proto=proto)
        try:
            objs = make_group(group, make, make_at)
            before = [hyb_read(name, o) for o in objs]
        except Exception as e:
            res.skipped["construct(C18's business):" + common.exc_failure(e)] += 1
            continue
        res.cases += 1
        res.transitions += 1
        res.events["pickle"] += 1
        try:
            new = pickle.loads(pickle.dumps(objs, protocol=proto))
            after = [hyb_read(name, o) for o in new]
        except Exception as e:
            bad("C20.pickle", "pickle-or-read-raises:" + common.exc_failure(e), f, cid, repr(e))
            continue
        res.oracles["equal"] += 1
        if before != after:
            bad("C20.equal", "unpickled-value-differs", f, cid, "%r -> %r" % (before, after))
            continue
        for a, b in itertools.combinations(range(len(objs)), 2):
            if (objs[a]._buffer is objs[b]._buffer) != (new[a]._buffer is new[b]._buffer):
                bad("C20.sharing", "buffer-sharing-changed", f, cid, "objects %d,%d" % (a, b))
        # independence + usability: write on each side
        for side in ("orig", "new"):
            res.transitions += 1
            res.events["write-" + side] += 1
            try:
                objs = make_group(group, make, make_at)
                new = pickle.loads(pickle.dumps(objs, protocol=proto))
                tgt = objs if side == "orig" else new
                oth = new if side == "orig" else objs
                ref = [hyb_read(name, o) for o in oth]
                for k, o in enumerate(tgt):
                    hyb_write(name, o, k)
                if [hyb_read(name, o) for o in oth] != ref:
                    bad("C20.independent", "write-shows-on-other-side", dict(f, side=side), cid, "")
                changed = [hyb_read(name, o) for o in tgt]
                if any(c == r for c, r in zip(changed, ref)):
                    bad("C20.usable", "write-had-no-effect", dict(f, side=side), cid, "")
            except Exception as e:
                bad("C20.usable", "write-raises:" + common.exc_failure(e), dict(f, side=side), cid, repr(e))
        objs = make_group(group, make, make_at)
        new = pickle.loads(pickle.dumps(objs, protocol=proto))
        ref = [hyb_read(name, o) for o in new]
        seenb = []
        for i_, n_ in enumerate(new):
            if not any(n_._buffer is b for b in seenb):
                seenb.append(n_._buffer)
                for o_, f_, d_ in allocator_check(n_._buffer, new, res, align=objs[i_]._buffer.default_alignment):
                    bad(o_, f_, f, cid, d_)
        if [hyb_read(name, o) for o in new] != ref:
            bad("C20.allocator", "allocation-damaged-unpickled-object", f, cid, "")
        else:
            res.outcomes["ok"] += 1
            res.states += 1
    # an object pickled TOGETHER WITH a part of it: the target of its reference field (same buffer) / its nested part
    if name in ("PH2", "PH3"):
        from . import pickle_types as pt

        H = pt.HYBRIDS
        for ctxkind in CTXKINDS[:2]:
            f = dict(cls=name, group="with-its-part", hybrid=True, context=ctxkind)
            cid = dict(part="hyb", name=name, group="with-its-part", context=ctxkind)
            res.cases += 1
            res.transitions += 2
            res.events["pickle"] += 1
            res.events["write-new"] += 1
            try:
                buf = context_of_kind(ctxkind).new_buffer(64)
                if name == "PH3":
                    part = H["PH1"](x=5, v=[1.0, 2.0], _buffer=buf)
                    whole = H["PH3"](r=part, k=1, _buffer=buf)
                    via = lambda w: w.r
                else:
                    whole = H["PH2"](inner=dict(x=5, v=[1.0, 2.0]), label="lab", w=[1, 2], _buffer=buf)
                    part = whole.inner
                    via = lambda w: w.inner
                w2, p2 = pickle.loads(pickle.dumps([whole, part]))
                if w2._buffer is not p2._buffer:
                    bad("C20.sharing", "buffer-sharing-changed", f, cid, "an object and its part (reference target / nested part) pickled together came back in two buffers")
                    continue
                p2.x = 4242
                seen = int(via(w2).x)
                if seen != 4242 or int(via(whole).x) != 5:
                    bad("C20.sharing", "part-detached-from-its-holder", f, cid, "write through the unpickled part reads %d through the unpickled holder (original holder reads %d)" % (seen, int(via(whole).x)))
                    continue
                res.outcomes["ok"] += 1
                res.states += 1
            except Exception as e:
                bad("C20.pickle", "pickle-or-read-raises:" + common.exc_failure(e), f, cid, repr(e))
    res.max_depth = 2


def run_shard(shard, tier, seed):
    res = common.ShardResult()
    if shard[0] == "xo":
        run_xo(shard[1], tier, res, seed)
    else:
        run_hyb(shard[1], tier, res, seed)
    res.nontrivial = res.states
    return res


def replay(case):
    res = common.ShardResult()
    if case.get("part") == "hyb":
        run_hyb(case["name"], "quick", res, 0)
    else:
        run_xo(case["name"], "quick", res, 0)
    return res.violations
