"""Construction case system shared by C01 / C03 / C05 / C06: type x value x input form x placement.
The single transition is the public constructor; each property module applies its own oracle."""
import collections

import numpy as np

from . import common, place, xt
from .xt import veq

VMODES = ["ramp", "extreme", "minimal", "long", "emptyref"]  # emptyref: references bound to arrays without items (types with such references only)
PY_FORMS = ["py", "py-args", "py-rows-view"]  # py-args: the value of every struct-typed FIELD is a 1-tuple of constructor arguments (documented tuple dispatch)
ND = ["nd", "ndF", "ndS", "ndD", "ndR", "ndFD", "ndTD", "ndB"]
XOBJ = ["xobj-same", "xobj-other", "xobj-ctx", "xobj-kind", "xobj-nested", "xobj-nested-lastslack", "xobj-slack", "ref-same", "ref-foreign", "xobj-view", "xobj-nested-view", "xobj-twin", "xobj-capslack",
        "xobj-dyn", "xobj-dyn-view", "xobj-dyn-len"]  # xobj-dyn*: a static-shape array built from an object of the all-dynamic class of the same shape
CAP = ["cap", "cap-np"]  # cap-np: the capacities are numpy integers (a length computed with numpy)
# arrays of static items given by their dynamic extents (python int / small numpy integers), items assigned one by one afterwards
LEN = ["len", "len-i8", "len-i16"]
LEN_KIND = {"len": int, "len-i8": np.int8, "len-i16": np.int16}


def cap_transform(t, v, c=None, capkind=int):
    """capacity form: every string is given as an integer capacity and reads back empty.
    Returns (argument tree in 'py' shape, expected value tree) or None if the type has no string."""
    if c is None:
        c = xt.Ctr()
    k = t[0]
    if k == "Str":
        n = c.nxt()
        return capkind([3, 8, 5, 16, 1, 11][n % 6]), ""
    if k == "S":
        return v, v
    if k == "St":
        a, e = {}, {}
        for n, ft in t[1]:
            a[n], e[n] = cap_transform(ft, v[n], c, capkind)
        return a, e
    if k == "A":
        shape = v["shape"]
        ev = {}
        av = {}
        for idx, iv in v["items"].items():
            av[idx], ev[idx] = cap_transform(t[1], iv, c, capkind)

        def rec(prefix, d):
            if d == len(shape):
                return av[prefix]
            return [rec(prefix + (i,), d + 1) for i in range(shape[d])]

        return rec((), 0), {"shape": shape, "items": ev}
    if k == "R":
        if v is None:
            return None, None
        return cap_transform(t[1], v, c, capkind)
    if k == "U":
        if v is None:
            return None, None
        a, e = cap_transform(t[1][v[0]], v[1], c, capkind)
        return (xt.build(t[1][v[0]]).__name__, a), (v[0], e)


def cap_size(t, a):
    """Bytes a capacity-form argument needs (documented: 8-byte size word + capacity, parts on slot boundaries)."""
    return None


def forms_for(t, v, want):
    """the input forms applicable to (t, v) among `want`"""
    out = []
    has_sa = xt.has_scalar_array(t)
    has_str = any(s[0] == "Str" for s in xt.subtypes(t))
    for f in want:
        if f == "py":
            if xt.py_expressible(t, v):
                out.append(f)
        elif f == "py-args":
            if xt.py_expressible(t, v) and any(s_[0] == "St" and any(ft[0] == "St" for _, ft in s_[1]) for s_ in xt.subtypes(t)):
                out.append(f)
        elif f == "py-rows-view":
            if xt.py_expressible(t, v) and any(s_[0] == "A" and s_[1][0] == "S" and len(s_[2]) >= 2 for s_ in xt.subtypes(t)):
                out.append(f)
        elif f in ND:
            if has_sa and xt.nd_ok(t, v, f) or (f == "nd" and not xt.py_expressible(t, v)):
                out.append(f)
        elif f in ("xobj-nested", "xobj-nested-view"):
            if t[0] in ("St", "A") and (t[0] == "St" and any(ft[0] in ("St", "A", "Str") for _, ft in t[1]) or t[0] == "A" and t[1][0] in ("St", "A", "Str")) and xt.py_expressible(t, v):
                out.append(f)
        elif f == "xobj-slack":
            if has_str and xt.py_expressible(t, v):
                out.append(f)
        elif f == "xobj-nested-lastslack":
            if has_str and xt.py_expressible(t, v) and (t[0] == "St" and any(ft[0] in ("St", "A") and any(s_[0] == "Str" for s_ in xt.subtypes(ft)) for _, ft in t[1])
                                                        or t[0] == "A" and t[1][0] in ("St", "A") and any(s_[0] == "Str" for s_ in xt.subtypes(t[1]))):
                out.append(f)
        elif f == "xobj-capslack":
            if has_str and xt.py_expressible(t, v):
                out.append(f)
        elif f == "xobj-twin":
            if t[0] == "A" and len(t[2]) >= 2 and not xt.has_refs(t):
                out.append(f)
        elif f in ("xobj-dyn", "xobj-dyn-view", "xobj-dyn-len"):
            if t[0] == "A" and all(d is not None for d in t[2]) and not xt.has_refs(t) and xt.py_expressible(t, v) and (f != "xobj-dyn-len" or not xt.is_dyn(t[1])):
                out.append(f)
        elif f in ("ref-same", "ref-foreign"):
            if xt.has_refs(t) and t[0] != "U" and xt.py_expressible(t, v):
                out.append(f)
        elif f in XOBJ:
            out.append(f)
        elif f in ("cap", "cap-np"):
            if has_str and xt.py_expressible(t, v):
                out.append(f)
        elif f in LEN:
            if len_fields(t) and xt.py_expressible(t, v):
                out.append(f)
    return out


def len_array(t, maxdyn):
    return t[0] == "A" and not xt.is_dyn(t[1]) and not xt.has_refs(t[1]) and 1 <= sum(d is None for d in t[2]) <= maxdyn


def len_fields(t):
    """where a type can be built from extents: () for a top-level array, field names for a struct (one dynamic axis each)"""
    if len_array(t, 3):
        return [()]
    if t[0] == "St":
        return [n for n, ft in t[1] if len_array(ft, 1)]
    return []


def len_arg(t, v, kind):
    if t[0] == "A":
        return xt.Lens(kind(n) for n, d in zip(v["shape"], t[2]) if d is None)
    arg = xt.to_py(t, v)
    for n in len_fields(t):
        ft = dict(t[1])[n]
        arg[n] = kind([x for x, d in zip(v[n]["shape"], ft[2]) if d is None][0])
    return arg


def len_fill(t, v, obj):
    """assign every item of the arrays that were built from extents"""
    for n in len_fields(t):
        at, av, ah = (t, v, obj) if n == () else (dict(t[1])[n], v[n], getattr(obj, n))
        for idx, iv in av["items"].items():
            ah[idx if len(idx) > 1 else idx[0]] = xt.to_py(at[1], iv)


def to_py_args(t, v, as_field=False):
    """plain data in which the value of every struct-typed field of a struct is a 1-tuple holding the dictionary"""
    k = t[0]
    if k == "St":
        d = {n: to_py_args(ft, v[n], True) for n, ft in t[1]}
        return (d,) if as_field else d
    if k == "A":
        shape = v["shape"]

        def rec(prefix, dd):
            if dd == len(shape):
                return to_py_args(t[1], v["items"][prefix])
            return [rec(prefix + (i,), dd + 1) for i in range(shape[dd])]

        return rec((), 0)
    if k == "R":
        return None if v is None else to_py_args(t[1], v)
    if k == "U":
        return None if v is None else (xt.build(t[1][v[0]]).__name__, to_py_args(t[1][v[0]], v[1]))
    return v


def base_arg(t, v):
    """the simplest argument able to express v: plain data, or an ndarray when a nested list cannot say (0, n)"""
    if xt.py_expressible(t, v):
        return xt.to_py(t, v)
    return xt.to_nd(t, v, "nd")


class Outcome:
    __slots__ = ("t", "v", "expect", "form", "pname", "pl", "obj", "buf", "before", "after", "error", "log", "src", "size_model", "ghosts")


def nested_view_arg(t, v):
    """immediate compound children supplied as the nested VIEWS of a complete object living in another buffer
    (what an enclosing copy hands to its parts); strings and scalars as plain data"""
    whole = xt.construct(t, xt.to_py(t, v), _buffer=place.traced("np", 0))
    if t[0] == "St":
        return {n: (getattr(whole, n) if ft[0] in ("St", "A") else xt.to_py(ft, v[n])) for n, ft in t[1]}
    shape = v["shape"]

    def rec(prefix, d):
        if d == len(shape):
            return whole[prefix if len(prefix) > 1 else prefix[0]] if t[1][0] in ("St", "A") else xt.to_py(t[1], v["items"][prefix])
        return [rec(prefix + (i,), d + 1) for i in range(shape[d])]

    return rec((), 0)


def rows_view_arg(t, v):
    """plain data in which the ROWS (last axis) of every array of numbers with two or more dimensions are 1-D xobject
    arrays, given as views rebuilt from (buffer, offset)"""
    k = t[0]
    if k in ("S", "Str"):
        return v
    if k == "St":
        return {n: rows_view_arg(ft, v[n]) for n, ft in t[1]}
    if k == "R":
        return None if v is None else rows_view_arg(t[1], v)
    if k == "U":
        return None if v is None else (xt.build(t[1][v[0]]).__name__, rows_view_arg(t[1][v[0]], v[1]))
    shape = v["shape"]
    rowcls = xt.build(("A", t[1], (None,), (0,))) if (t[1][0] == "S" and len(shape) >= 2) else None
    other = place.traced("np", 0)

    def rec(prefix, d):
        if rowcls is not None and d == len(shape) - 1:
            r = rowcls([v["items"][prefix + (i,)] for i in range(shape[d])], _buffer=other)
            return rowcls._from_buffer(r._buffer, r._offset)
        if d == len(shape):
            return rows_view_arg(t[1], v["items"][prefix])
        return [rec(prefix + (i,), d + 1) for i in range(shape[d])]

    return rec((), 0)


def nested_xobj_arg(t, v):
    """immediate compound / string children supplied as xobjects living in another buffer"""
    other = place.traced("np", 0)
    if t[0] == "St":
        arg = {}
        for n, ft in t[1]:
            if ft[0] in ("St", "A", "Str"):
                arg[n] = xt.construct(ft, xt.to_py(ft, v[n]), _buffer=other)
            else:
                arg[n] = xt.to_py(ft, v[n])
        return arg
    shape = v["shape"]

    def rec(prefix, d):
        if d == len(shape):
            return xt.construct(t[1], xt.to_py(t[1], v["items"][prefix]), _buffer=other)
        return [rec(prefix + (i,), d + 1) for i in range(shape[d])]

    return rec((), 0)


def lastslack_source(t, v, **kw):
    """an object holding v in which ONLY the string that comes last (not below a reference) was created 9 bytes longer and
    then assigned its final value: every stored offset equals the one planned from the values, the total size does not"""
    from . import hand

    leaves = [(p_, lt, lv) for p_, lt, lv in xt.leaf_paths(t, v) if lt[0] == "Str" and not any(q in ("*", "#") for q in p_)]
    if not leaves or t[0] == "Str":
        return xt.construct(t, xt.to_py(t, v), **kw)
    p_, lt, lv = leaves[-1]
    src = xt.construct(t, xt.to_py(t, xt.set_path(v, p_, lv + "#" * 9)), **kw)
    hand.assign(t, src, p_, lv)
    return src


def nested_lastslack_arg(t, v):
    """as nested_xobj_arg; every child object has spare room behind its last string only"""
    other = place.traced("np", 0)
    if t[0] == "St":
        return {n: (lastslack_source(ft, v[n], _buffer=other) if ft[0] in ("St", "A") else xt.to_py(ft, v[n])) for n, ft in t[1]}
    shape = v["shape"]

    def rec(prefix, d):
        if d == len(shape):
            return lastslack_source(t[1], v["items"][prefix], _buffer=other) if t[1][0] in ("St", "A") else xt.to_py(t[1], v["items"][prefix])
        return [rec(prefix + (i,), d + 1) for i in range(shape[d])]

    return rec((), 0)


def inflate(t, v):
    """same value with every string 9 bytes longer (always one slot more)"""
    k = t[0]
    if k == "Str":
        return v + "#" * 9
    if k == "S":
        return v
    if k == "St":
        return {n: inflate(ft, v[n]) for n, ft in t[1]}
    if k == "A":
        return {"shape": v["shape"], "items": {i: inflate(t[1], x) for i, x in v["items"].items()}}
    if k == "R":
        return None if v is None else inflate(t[1], v)
    if k == "U":
        return None if v is None else (v[0], inflate(t[1][v[0]], v[1]))


def cap_arg(t, v, c=None):
    """plain data in which every string is an integer capacity large enough for its final value, mostly NOT a whole
    number of slots"""
    if c is None:
        c = xt.Ctr()
    k = t[0]
    if k == "Str":
        n = c.nxt()
        if v == "":
            return [5, 3, 1, 7][n % 4]  # stays as created: an empty string in less than two slots
        return xt.slot(len(v.encode("utf8")) + 9) - 8 + [5, 0, 3][n % 3]
    if k == "S":
        return v
    if k == "St":
        return {n_: cap_arg(ft, v[n_], c) for n_, ft in t[1]}
    if k == "A":
        shape = v["shape"]

        def rec(prefix, d):
            if d == len(shape):
                return cap_arg(t[1], v["items"][prefix], c)
            return [rec(prefix + (i,), d + 1) for i in range(shape[d])]

        return rec((), 0)
    if k == "R":
        return None if v is None else cap_arg(t[1], v, c)
    if k == "U":
        return None if v is None else (xt.build(t[1][v[0]]).__name__, cap_arg(t[1][v[0]], v[1], c))


def some_empty(t, v, c=None):
    """the same value with every other string emptied"""
    if c is None:
        c = xt.Ctr()
    k = t[0]
    if k == "Str":
        return "" if c.nxt() % 2 else v
    if k == "S":
        return v
    if k == "St":
        return {n_: some_empty(ft, v[n_], c) for n_, ft in t[1]}
    if k == "A":
        return {"shape": v["shape"], "items": {i: some_empty(t[1], x, c) for i, x in v["items"].items()}}
    if k == "R":
        return None if v is None else some_empty(t[1], v, c)
    if k == "U":
        return None if v is None else (v[0], some_empty(t[1][v[0]], v[1], c))


def capslack_source(t, v, **kw):
    """an object holding v whose strings were created from capacities (sizes that are not whole slots); the non-empty ones
    were assigned afterwards, the empty ones stay as created"""
    from . import hand

    src = xt.construct(t, cap_arg(t, v), **kw)
    for path, lt, lv in xt.leaf_paths(t, v):
        if lt[0] == "Str" and lv != "":
            hand.assign(t, src, path, lv)
    return src


def slack_source(t, v, **kw):
    """an object holding v whose strings were created longer and then assigned their (fitting) final value:
    a legitimate object with slack inside"""
    from . import hand

    src = xt.construct(t, xt.to_py(t, inflate(t, v)), **kw)
    for path, lt, lv in xt.leaf_paths(t, v):
        if lt[0] == "Str":
            hand.assign(t, src, path, lv)
    return src


def with_ref_objects(t, v, buf):
    """plain data in which every (non-null) reference leaf is an xobject that already lives in `buf`:
    a reference to an object of the holder's own buffer aliases it, one to a foreign object copies it"""
    k = t[0]
    if k in ("S", "Str"):
        return v
    if k == "St":
        return {n: with_ref_objects(ft, v[n], buf) for n, ft in t[1]}
    if k == "A":
        shape = v["shape"]

        def rec(prefix, d):
            if d == len(shape):
                return with_ref_objects(t[1], v["items"][prefix], buf)
            return [rec(prefix + (i,), d + 1) for i in range(shape[d])]

        return rec((), 0)
    if k == "R":
        return None if v is None else xt.construct(t[1], xt.to_py(t[1], v), _buffer=buf)
    if k == "U":
        return None if v is None else xt.construct(t[1][v[0]], xt.to_py(t[1][v[0]], v[1]), _buffer=buf)


GHOST_EXT = [(3, 2, 4), (4, 3, 2), (2, 4, 3), (3, 4, 2), (4, 2, 3), (2, 3, 4)]


def ghost_values(t, v, size, k=2):
    """values of the same type and the same total size whose dynamic extents / item sizes are others"""
    out = []
    for mode in ("alt", "ramp", "long"):
        for ext in GHOST_EXT:
            try:
                g = xt.gen(t, mode, dynext=ext)
                if xt.layout_size(t, g) != size or hand_shapes(t, g) == hand_shapes(t, v):
                    continue
            except Exception:
                continue
            if not any(hand_shapes(t, g) == hand_shapes(t, x) for x in out):
                out.append(g)
            if len(out) >= k:
                return out
    return out


def hand_shapes(t, v):
    """the shapes and string lengths of a value tree (what decides where its parts lie)"""
    if isinstance(v, dict) and "shape" in v and "items" in v:
        return ("A", tuple(v["shape"]), tuple(hand_shapes(t[1], v["items"][i]) for i in sorted(v["items"])))
    if isinstance(v, dict):
        return tuple(hand_shapes(ft, v[n]) for n, ft in t[1])
    if isinstance(v, str):
        return len(v.encode("utf8")) // 8
    if isinstance(v, tuple):
        return (v[0], hand_shapes(t[1][v[0]], v[1])) if t[0] == "U" else None
    if v is not None and t[0] == "R":
        return hand_shapes(t[1], v)
    return None


def ghosts(t, v, size, pl, o):
    """placement `ghosthole`: the hole the object is going to land in has been occupied before, by objects of the SAME type and
    total size whose parts lie elsewhere (other dynamic extents, other item sizes); each of them was read in full through its
    handle and through views rebuilt from (buffer, offset) at every level, then released.  Whatever the library remembers
    about a place of a buffer belongs to the object that lived there then."""
    b = pl.buf
    o.ghosts = 0
    for g in ghost_values(t, v, size):
        try:
            arg = xt.to_py(t, g) if xt.py_expressible(t, g) else xt.to_nd(t, g, "nd")
            gh = xt.construct(t, arg, _buffer=b, _offset="packed")
            off = int(gh._offset)
            if off != pl.expect_off:
                continue  # (did not land in the hole: leave it where it is)
            xt.read(t, gh)
            if t[0] != "U":
                xt.read(t, xt.build(t)._from_buffer(b, off))
            from . import hand

            for path, ct, ch in hand.handles(t, gh):
                if not any(q in ("*", "#") for q in path):
                    xt.read(ct, xt.build(ct)._from_buffer(ch._buffer, ch._offset))
            b.free(off, size)
            o.ghosts += 1
        except Exception:
            pass  # (a ghost that cannot be built or read is C01's business)
    b.log.clear()


def execute(t, v, form, pname, salt=0):
    """Run one construction.  Never raises for library failures: they are recorded in .error"""
    o = Outcome()
    o.t, o.v, o.form, o.pname = t, v, form, pname
    o.expect = v
    o.obj = o.buf = o.before = o.after = o.error = o.src = None
    o.log = []
    o.size_model = xt.layout_size(t, v)
    size_for_place = o.size_model
    # argument
    if form == "py":
        arg = xt.to_py(t, v)
    elif form == "py-args":
        arg = to_py_args(t, v)
    elif form == "py-rows-view":
        arg = rows_view_arg(t, v)
    elif form in ND:
        arg = xt.to_nd(t, v, form)
    elif form in ("cap", "cap-np"):
        arg, o.expect = cap_transform(t, v, None, int if form == "cap" else np.int64)
        o.size_model = None
    elif form in LEN:
        arg = len_arg(t, v, LEN_KIND[form])
    elif form == "xobj-nested-lastslack":
        arg = nested_lastslack_arg(t, v)
        o.size_model = None  # anything between the minimal layout and the sources' extents is legitimate
    elif form == "xobj-nested":
        arg = nested_xobj_arg(t, v)
    elif form == "xobj-nested-view":
        arg = nested_view_arg(t, v)
    else:
        arg = None  # built below, needs the placement
    pl = place.place("dirtyhole" if pname == "ghosthole" else pname, size_for_place, salt)
    o.pl = pl
    if pname == "ghosthole":
        ghosts(t, v, size_for_place, pl, o)
    if form in ("ref-same", "ref-foreign"):
        tb = pl.buf if (form == "ref-same" and pl.buf is not None) else place.traced("np", 0)
        arg = with_ref_objects(t, v, tb)
        o.size_model = None if form == "ref-same" else o.size_model
        if pl.buf is not None:
            pl.buf.log.clear()
    elif form in XOBJ and form not in ("xobj-nested", "xobj-nested-view", "xobj-nested-lastslack"):
        if form == "xobj-same":
            srcbuf = pl.buf if pl.buf is not None else None
            kw = dict(_buffer=srcbuf) if srcbuf is not None else dict(_context=place.ctx(0))
        elif form == "xobj-other":
            kw = dict(_buffer=place.traced("np", 0))
        elif form == "xobj-kind":
            kw = dict(_buffer=place.traced("ba", 0))
        elif form in ("xobj-slack", "xobj-view", "xobj-twin", "xobj-capslack", "xobj-dyn", "xobj-dyn-view", "xobj-dyn-len"):
            kw = dict(_buffer=place.traced("np", 0))
        else:
            kw = dict(_buffer=place.traced("np", 0, context=place.ctx(1)))
        if form == "xobj-twin":
            # the source is an array of ANOTHER class that has the same generated name (same dims and item, other axis
            # order) and holds the same logical value
            tw = xt.twin(t)
            o.src = xt.construct(tw, base_arg(tw, v), **kw)
        elif form.startswith("xobj-dyn"):
            dt = ("A", t[1], tuple(None for _ in t[2]), t[3])
            if form == "xobj-dyn-len":
                o.src = xt.construct(dt, len_arg(dt, v, int), **kw)
                len_fill(dt, v, o.src)
            else:
                o.src = xt.construct(dt, base_arg(dt, v), **kw)
            if form == "xobj-dyn-view":
                o.src = xt.build(dt)._from_buffer(o.src._buffer, o.src._offset)
        elif form == "xobj-capslack":
            o.expect = v = some_empty(t, v)
            o.v = v
            o.src = capslack_source(t, v, **kw)
            o.size_model = None
        elif form == "xobj-slack":
            o.src = slack_source(t, v, **kw)
            o.size_model = None  # anything between the minimal layout and the source's extent is legitimate
        else:
            o.src = xt.construct(t, base_arg(t, v), **kw)
        if form == "xobj-view" and t[0] != "U":
            o.src = xt.build(t)._from_buffer(o.src._buffer, o.src._offset)  # a view rebuilt from (buffer, offset) as source
        arg = o.src
        if pl.buf is not None:
            pl.buf.log.clear()
    if pl.buf is not None:
        o.before = place.whole(pl.buf)
    try:
        with common.Watchdog(30):
            o.obj = xt.construct(t, arg, **pl.kw)
            if form in LEN:
                len_fill(t, v, o.obj)
    except common.Watchdog.Expired:
        o.error = RuntimeError("watchdog: constructor did not return within 30 s")
        return o
    except Exception as e:
        o.error = e
        return o
    o.buf = o.obj._buffer
    if pl.buf is not None:
        o.log = list(pl.buf.log)
        o.after = place.whole(pl.buf)
    return o


def case_id(t, vmode, form, pname):
    return dict(type=t, type_str=xt.show(t), vmode=vmode, form=form, place=pname)


def feats(t, vmode, form, pname):
    f = xt.features(t)
    f.update(vmode=vmode, form=form, place=pname, formclass=("nd" if form in ND else "xobj" if form in XOBJ else "len" if form in LEN else "cap" if form in CAP else form))
    return f


def enumerate_cases(types, vmodes, forms, places_for):
    """yield (t, vmode, v, form, pname)"""
    for t in types:
        has_str = any(s_[0] == "Str" for s_ in xt.subtypes(t))
        for vmode in vmodes:
            if vmode == "long" and not has_str:
                continue  # identical to ramp when there is no string
            if vmode == "emptyref" and not any(s_[0] in ("R", "U") and any(m[0] == "A" and any(d is None for d in m[2]) for m in ([s_[1]] if s_[0] == "R" else s_[1])) for s_ in xt.subtypes(t)):
                continue  # no reference that can denote an array with a dynamic axis
            v = xt.gen(t, vmode)
            for form in forms_for(t, v, forms):
                for pname in places_for(t, form):
                    yield t, vmode, v, form, pname


def chunk(lst, n):
    n = max(1, n)
    k = -(-len(lst) // n)
    return [lst[i : i + k] for i in range(0, len(lst), k)]
