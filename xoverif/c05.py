"""C05: object bytes follow the documented binary layout (DESIGN.md 2/C05)."""
import hashlib

from . import common, cons, hand, hist, place, universe, xt

PID = "C05"
FORMS = ["py", "nd", "ndF", "ndD", "ndFD", "ndTD", "cap", "xobj-other", "xobj-nested-lastslack"] + cons.LEN


def places_for(tier):
    def f(t, form):
        if form == "py":
            return ["ctx", "dirtyhole", "ba-hole", "grown", "al64"] if tier == "thorough" or xt.depth(t) <= 1 else ["dirtyhole", "grown"]
        if form == "cap":
            return ["cap0", "dirtybig"]
        return ["dirtyhole"]

    return f


def describe(tier):
    return dict(
        rule="case system as C01 (types x values x {plain data, ndarray C/F, string capacity, xobject copy} x placements); oracle = a decoder written "
        "only from Architecture.md / docs/architecture/types.rst, given AST + raw bytes + offset, must recover the value, find every part on a slot "
        "boundary, size words equal to extents, struct offset words in declaration order, item-offset tables and strides in memory order, strings "
        "NUL-terminated and zero padded inside a whole number of slots, references relative to their own slot with the reserved null encodings. "
        "distinct = new (type, object bytes).  History part: after every legal assignment (leaf, whole compound; handle and view) on the history sub-universe the bytes are decoded again and must equal the model.",
        bounds=dict(universe="as C01", values=cons.VMODES, forms=FORMS),
        assumptions=["the decoder is the harness's reading of the documented format (xoverif/xt.py: decode); it never imports xobjects"],
        must_fire=["construct", "set", "setc"],
    )


def shards(tier, seed):
    ts = universe.universe(tier, "all+3" if tier == "thorough" else "all")
    out = [("cons", c) for c in cons.chunk(ts, 64 if tier == "quick" else 192)]
    vm = ["ramp", "long"] if tier == "quick" else ["ramp", "long", "extreme"]
    out += [("hist", t, v, "dirtyhole") for t in universe.rh(tier) for v in vm]
    return out[seed % len(out):] + out[: seed % len(out)]


OPTS = dict(vias=("h", "v"), vals=2, compounds=True, grow=False, deep_leaves=4)


def judge_hist(s, ev, res):
    """after every legal assignment the bytes must still follow the documented layout and decode to the model"""
    try:
        with common.Watchdog(30):
            hist.apply_event(s, ev)
    except Exception as e:
        res.skipped["event-refused(C10's business):" + common.exc_failure(e)] += 1
        return [], False
    b = place.whole(s.h._buffer)
    try:
        val, size = xt.decode(s.t, b, int(s.h._offset))
    except xt.Bad as e:
        res.outcomes["bad:" + e.clause] += 1
        return [common.violation("C05." + e.clause, "layout-after-assignment:" + e.clause, {}, {}, str(e))], False
    res.oracles["decode-after-assignment"] += 1
    if not xt.veq(val, s.mv):
        return [common.violation("C05.value", "decoded-value-mismatch-after-assignment", {}, {}, "first difference at %r: %s" % xt.vdiff(val, s.mv))], False
    res.outcomes["ok:" + ev[0]] += 1
    return [], True


def judge(o, vmode, res, seen):
    t = o.t
    cid = cons.case_id(t, vmode, o.form, o.pname)
    f = cons.feats(t, vmode, o.form, o.pname)
    if o.error is not None:
        res.skipped["construct-raises(C01's business):" + common.exc_failure(o.error)] += 1
        return None
    buf = o.obj._buffer
    b = place.whole(buf)
    off = int(o.obj._offset)
    parts = []
    issues = []
    try:
        val, size = xt.decode(t, b, off, parts, issues=issues)
    except xt.Bad as e:
        res.outcomes["bad:" + e.clause] += 1
        return common.violation("C05." + e.clause, "layout:" + e.clause, f, cid, str(e))
    res.oracles["decode"] += 1
    if issues:
        # one violation per distinct clause (a known deviation must not hide a different one on the same object)
        seen_cl = {}
        for cl, msg in issues:
            seen_cl.setdefault(cl, msg)
        vs = [common.violation("C05." + cl, "layout:" + cl, f, cid, msg) for cl, msg in seen_cl.items()]
        for cl in seen_cl:
            res.outcomes["bad:" + cl] += 1
        return vs
    if not xt.veq(val, o.expect):
        res.outcomes["decoded-value-mismatch"] += 1
        return common.violation("C05.value", "decoded-value-mismatch", f, cid, "first difference at %r: %s" % xt.vdiff(val, o.expect))
    rep = hand.size_of(o.obj)
    if rep != size:
        res.outcomes["size-mismatch"] += 1
        return common.violation("C05.size-word", "reported-size", f, cid, "object reports %d bytes, documented layout occupies %d" % (rep, size))
    if o.size_model is not None and size != o.size_model:
        return common.violation("C05.size-word", "size-vs-layout", f, cid, "decoded extent %d, documented size for this value %d" % (size, o.size_model))
    # every part on a slot boundary relative to the object (scalar items of arrays and scalar fields are packed at item size inside their slot)
    for p in parts:
        if p.kind in ("struct", "array", "uref", "ref") or (p.t and p.t[0] == "Str"):
            if any(q in ("*", "#") for q in p.path):
                continue  # separate object: judged relative to its own start by its own decode
            if (p.off - off) % 8:
                res.outcomes["misaligned-part"] += 1
                return common.violation("C05.slot", "part-off-slot", f, cid, "part %r at +%d" % (p.path, p.off - off))
    res.oracles["slots"] += 1
    res.outcomes["ok:" + f["formclass"]] += 1
    seen.add(hashlib.sha1(repr(t).encode() + b[off : off + size]).digest())
    return None


def run_shard(shard, tier, seed):
    if shard[0] == "hist":
        res = common.ShardResult()
        _, t, vmode, pname = shard
        # (types holding union references get a second level in the quick tier: the same foreign object bound twice)
        seen = hist.explore(t, vmode, pname, (2 if any(s_[0] == "U" for s_ in xt.subtypes(t)) else 1) if tier == "quick" else 2, OPTS, judge_hist, res, seed)
        if seen:
            res.states = res.nontrivial = len(seen)
        return res
    types = shard[1]
    res = common.ShardResult()
    seen = set()
    for t, vmode, v, form, pname in cons.enumerate_cases(types, cons.VMODES, FORMS, places_for(tier)):
        res.cases += 1
        try:
            o = cons.execute(t, v, form, pname, seed)
        except Exception as e:
            res.skipped["prepare:" + common.exc_failure(e)] += 1
            continue
        res.transitions += 1
        res.events["construct"] += 1
        viol = judge(o, vmode, res, seen)
        if viol:
            res.violations.extend(viol if isinstance(viol, list) else [viol])
        elif o.error is None and len(res.samples) < 1 and xt.is_dyn(t):
            res.sample(dict(type=xt.show(t), value_mode=vmode, form=form, placement=pname, bytes=bytes(o.obj._buffer.to_bytearray(o.obj._offset, hand.size_of(o.obj))).hex()[:160]))
    res.states = res.nontrivial = len(seen)
    res.max_depth = 1
    return res


def replay(case):
    if "ev_idx" in case:
        return hist.replay_case(case, OPTS, judge_hist)
    t = xt.retuple(case["type"])
    v = xt.gen(t, case["vmode"])
    o = cons.execute(t, v, case["form"], case["place"], 0)
    viol = judge(o, case["vmode"], common.ShardResult(), set())
    return (viol if isinstance(viol, list) else [viol]) if viol else []
