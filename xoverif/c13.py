"""C13: CPU buffer copy primitives move exactly the requested bytes (DESIGN.md 2/C13)."""
import itertools

import numpy as np

from . import common, place, xt

PID = "C13"
KINDS = ["np", "ba"]
DTYPES = [xt.NPDT[k] for k in xt.KINDS]


def describe(tier):
    return dict(
        rule="case system with depth-2 follow-ups: both CPU buffer kinds x capacity 0..%d x every (offset, length) inside it x every copying primitive "
        "(update_from_buffer with bytes / bytearray / memoryview / ndarray.data of 1-, 2- and 8-byte dtypes; update_from_native; copy_to_native; to_native; "
        "to_bytearray; to_pointer_arg; to_nplike / to_nparray; update_from_nplike with C / F / strided / reversed / non-native byte order sources with and without dtype conversion; "
        "update_from_xbuffer same context same kind / same context other kind / other context; the copy into fresh storage made by grow() / a growing allocate() from four allocator states (every byte of the old storage must travel); scalar and scalar-array helpers for the 10 dtypes) against a "
        "bytearray model on a poisoned background: exactly the requested bytes at the requested offsets, every other byte identical, capacity unchanged; "
        "then the source / the result is mutated: extracted copies stay equal, typed views follow the buffer and vice versa." % (16 if tier == "quick" else 33),
        bounds=dict(capacities="0..%d" % (16 if tier == "quick" else 33), dtypes=DTYPES, layouts=["C", "F", "strided", "reversed", "converted", "byteswapped"]),
        assumptions=["offsets and lengths inside the capacity (out-of-range requests are not part of the property)"],
        must_fire=["update_from_buffer", "update_from_native", "copy_to_native", "to_native", "to_bytearray", "to_nplike", "update_from_nplike", "update_from_xbuffer", "to_pointer_arg", "scalar", "scalar-array"],
    )


def shards(tier, seed):
    caps = range(0, 17 if tier == "quick" else 34)
    out = [(k, c) for k in KINDS for c in caps]
    out += [(k, c, "grown") for k in KINDS for c in caps if c]
    out += [("big", k) for k in KINDS]
    return out[seed % len(out):] + out[: seed % len(out)]


HISTORY = ["fresh"]


def mk(kind, cap, salt, context=None):
    if HISTORY[0] == "grown" and cap:
        # the buffer reached its capacity by a relocating growth after its primitives had been used once
        first = cap // 2
        b = place.traced(kind, first, context=context)
        b.to_native(0, first)
        b.copy_to_native(bytearray(first) if kind == "ba" else np.zeros(first, dtype="int8"), 0, 0, first)
        b.grow(cap - first)
    else:
        b = place.traced(kind, cap, context=context)
    bg = place.poison(cap, salt)
    if cap:
        # poison through the storage itself (not through the primitives under test)
        if kind == "np":
            b.buffer[:] = np.frombuffer(bg, dtype="int8")
        else:
            b.buffer[:] = bg
    return b, bytearray(bg)


def raw(b):
    """bytes of the native storage, read without the primitives under test"""
    if isinstance(b.buffer, np.ndarray):
        return b.buffer.tobytes()
    return bytes(b.buffer)


def payload(n, salt):
    if n > 4096:  # the same bytes, computed with numpy
        return (((np.arange(n, dtype=np.int64) * 37 + salt * 11 + 0x3C) % 199) + 7).astype("u1").tobytes()
    return bytes(((i * 37 + salt * 11 + 0x3C) % 199) + 7 for i in range(n))


class Ctxt:
    def __init__(self, res, kind, cap):
        self.res, self.kind, self.cap = res, kind, cap

    def bad(self, prim, failure, detail, **feat):
        f = dict(kind=self.kind, cap=self.cap, primitive=prim, buffer_history=HISTORY[0])
        f.update(feat)
        self.res.outcomes["bad:" + prim] += 1
        self.res.violations.append(common.violation("C13." + prim, failure, f, dict(kind=self.kind, cap=self.cap, primitive=prim, buffer_history=HISTORY[0], **{k: v for k, v in feat.items()}), detail))

    def ok(self, prim):
        self.res.outcomes["ok:" + prim] += 1


def expect_state(c, prim, b, model, feat, what=""):
    got = raw(b)
    if len(got) != len(model) or b.capacity != len(model):
        c.bad(prim, "capacity-changed", "storage is %d bytes, capacity attribute %d, expected %d %s" % (len(got), b.capacity, len(model), what), **feat)
        return False
    if got != bytes(model):
        idx = [i for i in range(len(got)) if got[i] != model[i]]
        c.bad(prim, "wrong-bytes", "bytes differ from the model at %r %s" % (idx[:8], what), **feat)
        return False
    return True


def call(c, prim, feat, fn):
    c.res.transitions += 1
    c.res.events[prim] += 1
    try:
        with common.Watchdog(20):
            return True, fn()
    except Exception as e:
        c.bad(prim, "raises:" + common.exc_failure(e), repr(e), **feat)
        return False, None


BIG_SIZES = [65535, 65536, 65537, (1 << 20) - 1, 1 << 20, (1 << 20) + 1, (1 << 20) + 4097, (1 << 21) + 5, 3 * (1 << 20) + 8]


def run_big(kind, tier, seed):
    """the byte-moving primitives with lengths around the sizes at which an implementation may switch to another way of
    copying (64 KiB, 1 MiB and a few multiples): unaligned offsets, guard zones before and after the requested range"""
    res = common.ShardResult()
    c = Ctxt(res, kind, -1)
    salt = seed % 50
    okind = "ba" if kind == "np" else "np"
    for n in BIG_SIZES if tier == "thorough" else BIG_SIZES[::2] + BIG_SIZES[-2:-1]:
        off, so = 4099, 37
        cap = off + n + 4101
        data = payload(n, salt + 3)

        def fresh():
            return mk(kind, cap, salt)

        feat = dict(offset=off, nbytes=n, size_class="big")
        b, m = fresh()
        okc, _ = call(c, "update_from_buffer", feat, lambda: b.update_from_buffer(off, data))
        if okc:
            m[off : off + n] = data
            if expect_state(c, "update_from_buffer", b, m, feat):
                c.ok("update_from_buffer")
        for sname, skind, sctx in (("same-ctx-same-kind", kind, 0), ("same-ctx-other-kind", okind, 0), ("other-ctx-same-kind", kind, 1), ("other-ctx-other-kind", okind, 1)):
            s2, sm = mk(skind, so + n + 4101, salt + 13, context=place.ctx(sctx))
            b, m = fresh()
            f2 = dict(feat, source=sname)
            okc, _ = call(c, "update_from_xbuffer", f2, lambda: b.update_from_xbuffer(off, s2, so, n))
            if okc:
                m[off : off + n] = sm[so : so + n]
                if expect_state(c, "update_from_xbuffer", b, m, f2) and expect_state(c, "update_from_xbuffer", s2, sm, f2, "(source)"):
                    c.ok("update_from_xbuffer")
        s2, sm = mk(kind, so + n + 7, salt + 9)
        b, m = fresh()
        okc, _ = call(c, "update_from_native", feat, lambda: b.update_from_native(off, s2.buffer, so, n))
        if okc:
            m[off : off + n] = sm[so : so + n]
            if expect_state(c, "update_from_native", b, m, feat):
                c.ok("update_from_native")
        d2, dm = mk(kind, so + n + 7, salt + 5)
        b, m = fresh()
        okc, _ = call(c, "copy_to_native", feat, lambda: b.copy_to_native(d2.buffer, so, off, n))
        if okc:
            dm[so : so + n] = m[off : off + n]
            if expect_state(c, "copy_to_native", d2, dm, feat, "(destination)") and expect_state(c, "copy_to_native", b, m, feat):
                c.ok("copy_to_native")
        for prim in ("to_native", "to_bytearray"):
            b, m = fresh()
            okc, r = call(c, prim, feat, lambda: getattr(b, prim)(off, n))
            if okc:
                rb = r.tobytes() if isinstance(r, np.ndarray) else bytes(r)
                if rb != bytes(m[off : off + n]):
                    c.bad(prim, "wrong-content", "%d bytes returned, %d requested" % (len(rb), n), **feat)
                elif expect_state(c, prim, b, m, feat):
                    c.ok(prim)
        vals = np.frombuffer(payload(n - n % 8, salt + 21), dtype="<i8").copy()
        b, m = fresh()
        f3 = dict(feat, dtype="<i8", layout="C")
        okc, _ = call(c, "update_from_nplike", f3, lambda: b.update_from_nplike(off, np.dtype("<i8"), vals))
        if okc:
            m[off : off + vals.nbytes] = vals.tobytes()
            if expect_state(c, "update_from_nplike", b, m, f3):
                c.ok("update_from_nplike")
        # the copy into fresh storage made by a growth
        b, m = fresh()
        okc, _ = call(c, "grow", feat, lambda: b.grow(4096))
        if okc:
            m2 = bytearray(m) + bytearray(4096)
            got = raw(b)
            if b.capacity != len(m2) or got[: len(m)] != bytes(m):
                c.bad("grow", "wrong-bytes", "the old storage did not travel in full (capacity %d)" % b.capacity, **feat)
            else:
                c.ok("grow")
        res.cases += 1
    res.states = res.nontrivial = res.cases
    res.max_depth = 1
    return res


def run_shard(shard, tier, seed):
    if shard[0] == "big":
        HISTORY[0] = "fresh"
        return run_big(shard[1], tier, seed)
    kind, cap = shard[:2]
    HISTORY[0] = shard[2] if len(shard) > 2 else "fresh"  # this process only
    res = common.ShardResult()
    c = Ctxt(res, kind, cap)
    salt = seed % 50
    pairs = [(o, n) for o in range(cap + 1) for n in range(cap - o + 1)]
    n_cases = 0
    for off, n in pairs:
        data = payload(n, salt + off)
        # ---- update_from_buffer with byte sources
        for sname, src in (("bytes", bytes(data)), ("bytearray", bytearray(data)), ("memoryview", memoryview(bytes(data))), ("ndarray.data:u1", np.frombuffer(data, dtype="u1").copy().data), ("ndarray.data:i1", np.frombuffer(data, dtype="i1").copy().data)):
            b, m = mk(kind, cap, salt)
            feat = dict(offset=off, nbytes=n, source=sname)
            okc, _ = call(c, "update_from_buffer", feat, lambda: b.update_from_buffer(off, src))
            if okc:
                m[off : off + n] = data
                if expect_state(c, "update_from_buffer", b, m, feat):
                    # depth 2: mutate the source afterwards (a bytearray source must not stay linked)
                    if sname == "bytearray" and n:
                        src[0] ^= 0xFF
                        if expect_state(c, "update_from_buffer", b, m, feat, "(after mutating the source)"):
                            c.ok("update_from_buffer")
                    else:
                        c.ok("update_from_buffer")
            n_cases += 1
        for dt in ("<i2", "<f8"):
            isz = np.dtype(dt).itemsize
            if n % isz == 0 and n > 0:
                arr = np.frombuffer(data, dtype=dt).copy()
                b, m = mk(kind, cap, salt)
                feat = dict(offset=off, nbytes=n, source="ndarray.data:" + dt)
                okc, _ = call(c, "update_from_buffer", feat, lambda: b.update_from_buffer(off, arr.data))
                if okc:
                    m[off : off + n] = data
                    if expect_state(c, "update_from_buffer", b, m, feat):
                        c.ok("update_from_buffer")
                n_cases += 1
        # ---- update_from_native / copy_to_native / to_native / to_bytearray / to_pointer_arg
        for so in (0, 3):
            s2, sm = mk(kind, n + so + 2, salt + 9)
            b, m = mk(kind, cap, salt)
            feat = dict(offset=off, nbytes=n, source_offset=so)
            okc, _ = call(c, "update_from_native", feat, lambda: b.update_from_native(off, s2.buffer, so, n))
            if okc:
                m[off : off + n] = sm[so : so + n]
                if expect_state(c, "update_from_native", b, m, feat) and expect_state(c, "update_from_native", s2, sm, feat, "(source buffer)"):
                    c.ok("update_from_native")
            d2, dm = mk(kind, n + so + 2, salt + 5)
            b, m = mk(kind, cap, salt)
            okc, _ = call(c, "copy_to_native", feat, lambda: b.copy_to_native(d2.buffer, so, off, n))
            if okc:
                dm[so : so + n] = m[off : off + n]
                if expect_state(c, "copy_to_native", d2, dm, feat, "(destination)") and expect_state(c, "copy_to_native", b, m, feat):
                    c.ok("copy_to_native")
            n_cases += 2
        for prim in ("to_native", "to_bytearray", "to_pointer_arg"):
            b, m = mk(kind, cap, salt)
            feat = dict(offset=off, nbytes=n)
            okc, r = call(c, prim, feat, lambda: getattr(b, prim)(off, n))
            if not okc:
                continue
            n_cases += 1
            rb = r.tobytes() if isinstance(r, np.ndarray) else bytes(r)
            if rb != bytes(m[off : off + n]):
                c.bad(prim, "wrong-content", "returned %r expected %r" % (rb[:16], bytes(m[off : off + n])[:16]), **feat)
                continue
            if not expect_state(c, prim, b, m, feat):
                continue
            if prim in ("to_native", "to_bytearray") and n:
                # extracted copies are independent of the buffer, both ways
                b2 = payload(n, salt + 77)
                if kind == "np":
                    b.buffer[off : off + n] = np.frombuffer(b2, dtype="int8")
                else:
                    b.buffer[off : off + n] = b2
                rb2 = r.tobytes() if isinstance(r, np.ndarray) else bytes(r)
                if rb2 != rb:
                    c.bad(prim, "copy-follows-buffer", "the extracted copy changed when the buffer was overwritten", **feat)
                    continue
                m[off : off + n] = b2
                if isinstance(r, np.ndarray):
                    r[0] = ~r[0]
                else:
                    r[0] ^= 0xFF
                if not expect_state(c, prim, b, m, feat, "(after mutating the extracted copy)"):
                    continue
            c.ok(prim)
        # ---- update_from_xbuffer
        for sname, skind, sctx in (("same-ctx-same-kind", kind, 0), ("same-ctx-other-kind", "ba" if kind == "np" else "np", 0), ("other-ctx-same-kind", kind, 1), ("other-ctx-other-kind", "ba" if kind == "np" else "np", 1)):
            s2, sm = mk(skind, n + 4, salt + 13, context=place.ctx(sctx))
            b, m = mk(kind, cap, salt)
            feat = dict(offset=off, nbytes=n, source=sname)
            okc, _ = call(c, "update_from_xbuffer", feat, lambda: b.update_from_xbuffer(off, s2, 2, n))
            n_cases += 1
            if okc:
                m[off : off + n] = sm[2 : 2 + n]
                if expect_state(c, "update_from_xbuffer", b, m, feat) and expect_state(c, "update_from_xbuffer", s2, sm, feat, "(source)"):
                    if n:
                        s2.buffer[2] = 1 if sm[2] != 1 else 2  # mutate the source afterwards
                        if not expect_state(c, "update_from_xbuffer", b, m, feat, "(after mutating the source)"):
                            continue
                    c.ok("update_from_xbuffer")
        # ---- typed primitives
        for dt in DTYPES:
            d = np.dtype(dt)
            if n % d.itemsize:
                continue
            cnt = n // d.itemsize
            vals = np.frombuffer(payload(n, salt + 21), dtype=dt).copy() if n else np.zeros(0, dtype=dt)
            if d.kind == "f":
                vals = (np.arange(cnt) * 1.5 - 2).astype(dt)
            # to_nplike / to_nparray: alias the bytes they cover
            for prim in ("to_nplike", "to_nparray"):
                b, m = mk(kind, cap, salt)
                feat = dict(offset=off, nbytes=n, dtype=dt)
                okc, a = call(c, "to_nplike", feat, lambda: getattr(b, prim)(off, d, (cnt,)))
                n_cases += 1
                if not okc:
                    continue
                if a.dtype != d or a.shape != (cnt,) or a.tobytes() != bytes(m[off : off + n]):
                    c.bad("to_nplike", "wrong-view", "%s: dtype %s shape %s" % (prim, a.dtype, a.shape), **feat)
                    continue
                if cnt:
                    try:
                        a[:] = vals
                    except Exception as e:
                        c.bad("to_nplike", "view-not-writable:" + type(e).__name__, repr(e), **feat)
                        continue
                    m[off : off + n] = vals.tobytes()
                    if not expect_state(c, "to_nplike", b, m, feat, "(after writing through the view)"):
                        continue
                    nb = payload(n, salt + 31)
                    if kind == "np":
                        b.buffer[off : off + n] = np.frombuffer(nb, dtype="int8")
                    else:
                        b.buffer[off : off + n] = nb
                    if a.tobytes() != nb:
                        c.bad("to_nplike", "view-does-not-follow-buffer", prim, **feat)
                        continue
                c.ok("to_nplike")
            # update_from_nplike: layouts and conversions
            shapes = [(cnt,)]
            if cnt and cnt % 2 == 0:
                shapes.append((2, cnt // 2))
            for shape in shapes:
                base = vals.reshape(shape)
                variants = [("C", base)]
                if len(shape) == 2:
                    variants.append(("F", np.asfortranarray(base)))
                    variants.append(("T-view", base.T.copy().T))
                if cnt:
                    big = np.zeros(tuple(2 * s for s in shape), dtype=dt)
                    sl = tuple(slice(0, 2 * s, 2) for s in shape)
                    big[sl] = base
                    variants.append(("strided", big[sl]))
                    variants.append(("reversed", base[::-1].copy()[::-1]))
                    if d.kind != "f":
                        small = (np.arange(cnt) % 100).reshape(shape)
                        conv = [("converted:f8", small.astype("<f8")), ("converted:i8", small.astype("<i8"))]
                    else:
                        conv = [("converted:i4", (np.arange(cnt) - 3).reshape(shape).astype("<i4"))]
                    if d.itemsize > 1:  # same item type, other byte order: same VALUES, every item needs its bytes swapped
                        variants.append(("byteswapped", base.astype(d.newbyteorder())))
                        variants.append(("byteswapped+strided", big[sl].astype(d.newbyteorder())[::-1][::-1]))
                    for cname, ca in conv:
                        if ca.dtype == d:
                            continue
                        variants.append((cname, ca))
                        variants.append((cname + "+byteswapped", ca.astype(ca.dtype.newbyteorder())))
                        if len(shape) == 2:  # conversion AND a source that is not C-contiguous
                            variants.append((cname + "+F", np.asfortranarray(ca)))
                            variants.append((cname + "+T-view", np.ascontiguousarray(ca.T).T))
                for vname, src in variants:
                    b, m = mk(kind, cap, salt)
                    feat = dict(offset=off, nbytes=n, dtype=dt, layout=vname, ndim=len(shape))
                    snap = src.copy()
                    okc, _ = call(c, "update_from_nplike", feat, lambda: b.update_from_nplike(off, d, src))
                    n_cases += 1
                    if not okc:
                        continue
                    m[off : off + n] = np.ascontiguousarray(snap.astype(dt)).tobytes()
                    if not expect_state(c, "update_from_nplike", b, m, feat):
                        continue
                    if not np.array_equal(src, snap):
                        c.bad("update_from_nplike", "source-modified", "", **feat)
                        continue
                    if cnt:
                        src.flat[0] = src.flat[0] + 1 if d.kind != "f" else 99.0
                        if not expect_state(c, "update_from_nplike", b, m, feat, "(after mutating the source)"):
                            continue
                    c.ok("update_from_nplike")
                # sources that ARE the destination bytes, seen in another item order: a typed view of the buffer itself at
                # the destination, reversed along one axis (what `obj.field = obj.field.to_nplike()[::-1]` hands over)
                if cnt > 1:
                    for vname, pick in [("own-view-reversed", lambda w: w[::-1])] + ([("own-view-columns-reversed", lambda w: w[:, ::-1])] if len(shape) == 2 and shape[1] > 1 else []):
                        b, m = mk(kind, cap, salt)
                        feat = dict(offset=off, nbytes=n, dtype=dt, layout=vname, ndim=len(shape))
                        try:
                            w = b.to_nplike(off, dt, shape)
                            src = pick(w)
                        except Exception as e:
                            c.bad("to_nplike", "raises:" + common.exc_failure(e), repr(e), **feat)
                            continue
                        snap = np.ascontiguousarray(src).tobytes()
                        if snap == bytes(m[off : off + n]):
                            continue  # (palindromic bytes: nothing to observe)
                        okc, _ = call(c, "update_from_nplike", feat, lambda: b.update_from_nplike(off, d, src))
                        n_cases += 1
                        if not okc:
                            continue
                        m[off : off + n] = snap
                        if expect_state(c, "update_from_nplike", b, m, feat):
                            c.ok("update_from_nplike")
            # scalar helpers
            import xobjects as xo

            sc = getattr(xo, xt.XONAME[[k for k, v in xt.NPDT.items() if v == dt][0]])
            if cnt >= 1 and n == d.itemsize:
                b, m = mk(kind, cap, salt)
                feat = dict(offset=off, dtype=dt)
                val = vals[0]
                okc, _ = call(c, "scalar", feat, lambda: sc._to_buffer(b, off, val))
                n_cases += 1
                if okc:
                    m[off : off + n] = val.tobytes()
                    if expect_state(c, "scalar", b, m, feat):
                        okc, r = call(c, "scalar", feat, lambda: sc._from_buffer(b, off))
                        if okc:
                            if np.asarray(r).tobytes() != val.tobytes():
                                c.bad("scalar", "wrong-value", "%r vs %r" % (r, val), **feat)
                            else:
                                c.ok("scalar")
            if cnt >= 1:
                b, m = mk(kind, cap, salt)
                feat = dict(offset=off, nbytes=n, dtype=dt)
                okc, _ = call(c, "scalar-array", feat, lambda: sc._array_to_buffer(b, off, vals))
                n_cases += 1
                if okc:
                    m[off : off + n] = vals.tobytes()
                    if expect_state(c, "scalar-array", b, m, feat):
                        okc, r = call(c, "scalar-array", feat, lambda: sc._array_from_buffer(b, off, cnt))
                        if okc:
                            if np.asarray(r).tobytes() != vals.tobytes():
                                c.bad("scalar-array", "wrong-values", "", **feat)
                            else:
                                c.ok("scalar-array")
    # ---- the copy into fresh native storage made by a growth: ALL bytes of the old storage travel (callers may write at offsets
    # they chose themselves), whatever the allocator knows about them
    for pre in ("nothing-allocated", "half-allocated", "all-allocated", "hole"):
        for how, g in (("grow", 1), ("grow", 8), ("grow", cap + 3), ("allocate", cap + 1), ("allocate", max(cap, 1))):
            b, m = mk(kind, cap, salt + 5)
            feat = dict(offset=0, nbytes=cap, layout=pre, source="%s(%d)" % (how, g))
            try:
                if pre == "half-allocated" and cap:
                    b.allocate(cap // 2, align=False)
                elif pre == "all-allocated" and cap:
                    b.allocate(cap, align=False)
                elif pre == "hole" and cap >= 2:
                    o1 = b.allocate(cap // 2, align=False)
                    b.allocate(cap - cap // 2, align=False)
                    b.free(o1, cap // 2)
            except Exception as e:
                res.skipped["allocator(C04's business):" + common.exc_failure(e)] += 1
                continue
            if raw(b)[:cap] != bytes(m):
                res.skipped["allocator-touched-bytes(C04's business)"] += 1
                continue
            okc, _ = call(c, "grow-copy", feat, (lambda: b.grow(g)) if how == "grow" else (lambda: b.allocate(g, align=False)))
            n_cases += 1
            if not okc:
                continue
            got = raw(b)
            if b.capacity < cap or len(got) != b.capacity:
                c.bad("grow-copy", "capacity-changed", "capacity %d, storage %d bytes after %s from %d" % (b.capacity, len(got), feat["source"], cap), **feat)
            elif got[:cap] != bytes(m):
                idx = [i for i in range(cap) if got[i] != m[i]]
                c.bad("grow-copy", "wrong-bytes", "bytes of the old storage not carried over at %r" % (idx[:8],), **feat)
            else:
                c.ok("grow-copy")
    res.cases = n_cases
    res.states = res.nontrivial = n_cases
    res.max_depth = 2
    # collapse violations to one per (oracle, failure, source/layout) per shard, shortest first
    seen = {}
    for v in res.violations:
        k = (v["oracle"], v["failure"], v["features"].get("source"), v["features"].get("layout"), v["features"].get("dtype"))
        if k not in seen:
            seen[k] = v
    res.violations = list(seen.values())
    if cap == 8:
        res.sample(dict(kind=kind, capacity=cap, pairs=len(pairs), cases=n_cases))
    return res


def replay(case):
    res = common.ShardResult()
    if case.get("cap") == -1:
        r = run_big(case["kind"], "thorough", 0)
        return [v for v in r.violations if v["features"].get("primitive") == case.get("primitive")]
    r = run_shard((case["kind"], case["cap"], case.get("buffer_history", "fresh")), "quick", 0)
    return [v for v in r.violations if v["features"].get("primitive") == case.get("primitive")]
