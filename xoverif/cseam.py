"""C seam shared by C02 / C07 / C15: batches of types compiled through the user's route
(ctx.add_kernels(kernels=T._gen_kernels(), extra_classes=[...])), and the Python-side walk of generated access paths."""
import re

import numpy as np

from . import common, hand, place, xt


def class_names(t):
    """name -> AST for every class the generated API of t mentions"""
    out = {}
    for s in xt.subtypes(t):
        if s[0] in ("St", "A", "U"):
            out.setdefault(xt.build(s).__name__, set()).add(s)
    return out


def plan_batches(types, size):
    """Greedy packing: no two distinct types of one batch may share a class name (xobjects keeps the last class of a name)."""
    batches = []
    for t in types:
        names = class_names(t)
        for b in batches:
            if len(b["types"]) >= size:
                continue
            if all(b["names"].get(n, a) == a for n, a in names.items()):
                b["types"].append(t)
                b["names"].update(names)
                break
        else:
            batches.append(dict(types=[t], names=dict(names)))
    return [b["types"] for b in batches]


def self_consistent(t):
    """a single type whose own sub-types collide by name cannot be compiled at all (documented xobjects limitation)"""
    return all(len(v) == 1 for v in class_names(t).values())


def build_module(types, omp=0, extra_compile_args=("-O0", "-w")):
    """compile the accessor API of all `types` into one cffi module; returns (context, kernel dict)"""
    import xobjects as xo

    ctx = xo.ContextCpu(omp_num_threads=omp)
    kernels = {}
    classes = []
    for t in types:
        cls = xt.build(t)
        classes.append(cls)
        kernels.update(cls._gen_kernels())
    if extra_compile_args == "default":  # the compile and link lines the library chooses itself
        ctx.add_kernels(kernels=kernels, extra_classes=classes)
    else:
        ctx.add_kernels(kernels=kernels, extra_classes=classes, extra_compile_args=extra_compile_args, extra_link_args=())
    return ctx, kernels


def parse_action(cls, c_name):
    pre = cls._c_type + "_"
    assert c_name.startswith(pre), (c_name, pre)
    tok = c_name[len(pre):].split("_")[0]
    m = re.match(r"([a-z]+)(\d*)$", tok)
    return m.group(1)


def path_methods(cls, path):
    """{action: c_name} for one generated path, names taken from the generator itself"""
    from xobjects import capi
    from xobjects.typeutils import default_conf

    out = {}
    for src, kern in capi.methods_from_path(cls, path, default_conf):
        if kern is None:
            continue
        out[parse_action(cls, kern.c_name)] = kern
    return out


def walk(t, obj, path):
    """Python-side navigation of a generated path.  Yields (index tuple, vpath, element, address, kind) where
    element = python value / handle the path denotes, address = absolute offset of the denoted bytes
    (slot address for union references), vpath = value-tree path."""
    from xobjects.struct import Field
    from xobjects.array import Index
    import xobjects as xo

    def rec(x, addr, parts, idx, vpath):
        if not parts:
            yield idx, vpath, x, addr
            return
        p = parts[0]
        if isinstance(p, Field):
            child = getattr(x, p.name)
            a = x._get_offset(p.name)
            yield from rec(child, a, parts[1:], idx, vpath + (p.name,))
        elif isinstance(p, Index):
            for i in xt.ndindex([int(s) for s in x._shape]):
                key = i if len(i) > 1 else i[0]
                yield from rec(x[key], x._get_offset(key), parts[1:], idx + i, vpath + (i,))
        elif isinstance(p, xo.Ref):
            if x is None:
                return  # path through a null reference: not a well-formed call
            yield from rec(x, int(x._offset), parts[1:], idx, vpath + ("*",))
        else:
            yield from rec(x, addr, parts[1:], idx, vpath)  # class marker

    yield from rec(obj, int(obj._offset), path[1:], (), ())


def base_address(buf):
    """address of the first byte of the native storage (ndarray or bytearray)"""
    return np.frombuffer(buf.buffer, dtype="int8").ctypes.data


def place_object(t, v, salt=0, kind="np"):
    """object at a non-zero, slot-aligned offset of a traced buffer that has already grown (relocated)"""
    if kind == "oddrefs":
        # the referents exist before the holder, and something of an odd size was allocated in between: the relative
        # offsets stored in the references are not multiples of any scalar size
        from . import cons

        b = place.traced("np", 24, default_alignment=1, grow_step=None)
        a = b.allocate(24)
        b.update_from_buffer(a, place.poison(24, salt))
        arg = cons.with_ref_objects(t, v, b)
        b.allocate(3 + 2 * (salt % 2), align=False)
        return xt.construct(t, arg, _buffer=b), b
    b = place.traced(kind, 24, default_alignment=8, grow_step=None)
    a = b.allocate(24)
    b.update_from_buffer(a, place.poison(24, salt))
    arg = xt.to_py(t, v) if xt.py_expressible(t, v) else xt.to_nd(t, v, "nd")
    return xt.construct(t, arg, _buffer=b), b


def type_at(t, v, vpath):
    from .hist import type_at as ta

    return ta(t, v, vpath)


def calls_for_object(t, v, obj, actions=("get", "getp", "len", "typeid", "member")):
    """Every well-formed read call of the generated API on `obj` with what Python reports for it.
    Yields dict(pi, action, kern, idx, vpath, lt, kind, expect): kind in val | addr | int."""
    cls = xt.build(t)
    for pi, path in enumerate(cls._gen_data_paths()):
        meths = path_methods(cls, path)
        if not meths:
            continue
        for idx, vpath, elem, addr in walk(t, obj, path):
            lt, lv = type_at(t, v, vpath)
            tgt = None
            if lt[0] == "U":
                tgt = elem.get() if (hasattr(elem, "get") and type(elem).__name__ == xt.build(lt).__name__) else elem
            for action, kern in meths.items():
                if action not in actions:
                    continue
                rec = dict(pi=pi, action=action, kern=kern, idx=idx, vpath=vpath, lt=lt, elem_addr=int(addr))
                if action == "get":
                    rec.update(kind="val", expect=xt.pyval(elem))
                elif action == "getp":
                    rec.update(kind="addr", expect=int(elem._offset) if lt[0] in ("St", "A") else int(addr))
                elif action == "len":
                    rec.update(kind="int", expect=int(len(elem)))
                elif action == "typeid":
                    rec.update(kind="int", expect=-1 if tgt is None else xt.member_names(lt).index(type(tgt).__name__))
                elif action == "member":
                    if tgt is None:
                        continue
                    rec.update(kind="addr", expect=int(tgt._offset))
                elif action == "set":
                    rec.update(kind="set", expect=None, size=xt.static_size(lt))
                yield rec
