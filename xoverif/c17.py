"""C17: kernel calls deliver every argument and the return value faithfully (DESIGN.md 2/C17)."""
import hashlib
import itertools
import os

import numpy as np

from . import common, place, xt

PID = "C17"
SC = xt.KINDS


def ctype(k):
    return {"i8": "int8_t", "u8": "uint8_t", "i16": "int16_t", "u16": "uint16_t", "i32": "int32_t", "u32": "uint32_t", "i64": "int64_t", "u64": "uint64_t", "f32": "float", "f64": "double"}[k]


def describe(tier):
    return dict(
        rule="(a) case system: for each of the 10 scalar kinds x type extremes: identity kernel (argument by value, same type returned), store kernel (bit pattern "
        "written through a pointer argument); all 100 (by-value kind, pointer kind) pairs in arity-3 kernels together with an xobject argument; NumPy "
        "pointer arguments: whole array, offset slice, strided slice, 2-D sub-block, reversed view (address of the first element and its value); xobject arrays "
        "as pointer arguments; refusals: positional call, missing / extra / misnamed argument, wrong element dtype (NumPy and xobject). "
        "(b) history system: buffer B (capacity 8, grows) x events {create struct / dynamic struct / array / union reference object aligned or packed, grow B, "
        "free an object}; after EVERY event of every history (calls are part of the history, so call -> grow -> call sequences are covered) every live object is passed to address-reporting and content-reading kernels: pointer == current storage base + "
        "_offset, content read in C == Python, array pointer == address of the first element. Serial and OpenMP contexts.",
        bounds=dict(history_depth=4 if tier == "quick" else 5, contexts=["serial", "openmp:2"], scalar_kinds=SC),
        assumptions=["values not representable in the declared C type are outside the property", "empty arrays are not passed as pointer arguments"],
        must_fire=["identity", "store", "mix", "numpy-pointer", "xobject-array-pointer", "refusal", "object-pointer", "new", "grow", "free"],
    )


def shards(tier, seed):
    out = [("scalars", omp) for omp in (0, 2)]
    out += [("history", omp, first, "np") for omp in (0, 2) for first in range(9)]
    out += [("history", 0, first, "ba") for first in range(9)]  # objects living in a BufferByteArray
    out += [("rereg", omp) for omp in (0, 2)]  # one kernel name declared again and again in one context
    return out[seed % len(out):] + out[: seed % len(out)]


# --------------------------------------------------------------------------


def classes():
    import xobjects as xo

    if "S" not in _cls:

        class C17S(xo.Struct):
            a = xo.Int64
            b = xo.Float64

        class C17D(xo.Struct):
            s = xo.String
            v = xo.Int32[:]
            k = xo.Int16

        class C17U(xo.UnionRef):
            _reftypes = (C17S, C17D)

        # a hybrid (python-dressed) class: its objects are passed to kernels as they are, and move() relocates them while the
        # python object stays the same
        class C17H(xo.HybridClass):
            _xofields = {"a": xo.Int64, "b": xo.Float64, "w": xo.Float64[:]}

        _cls.update(S=C17S, D=C17D, A=xo.Float64[:], U=C17U, H=C17H._XoStruct)
        _hyb["H"] = C17H
    return _cls


_cls = {}
_hyb = {}


def source_and_kernels():
    import xobjects as xo

    c = classes()
    src = ["#include <string.h>"]
    ks = {}
    for k in SC:
        T = getattr(xo, xt.XONAME[k])
        ct = ctype(k)
        src.append("/*gpukern*/ %s id_%s(%s x){ return x; }" % (ct, k, ct))
        ks["id_" + k] = xo.Kernel(args=[xo.Arg(T, name="x")], ret=xo.Arg(T))
        src.append("/*gpukern*/ void st_%s(%s x, /*gpuglmem*/ uint8_t* out){ memcpy(out, &x, sizeof x); }" % (k, ct))
        ks["st_" + k] = xo.Kernel(args=[xo.Arg(T, name="x"), xo.Arg(xo.UInt8, pointer=True, name="out")])
        src.append("/*gpukern*/ int64_t addr_%s(/*gpuglmem*/ %s* p){ return (int64_t)(intptr_t) p; }" % (k, ct))
        ks["addr_" + k] = xo.Kernel(args=[xo.Arg(T, pointer=True, name="p")], ret=xo.Arg(xo.Int64))
        src.append("/*gpukern*/ %s first_%s(/*gpuglmem*/ const %s* p){ return p[0]; }" % (ct, k, ct))
        ks["first_" + k] = xo.Kernel(args=[xo.Arg(T, pointer=True, const=True, name="p")], ret=xo.Arg(T))
    for k1, k2 in itertools.product(SC, SC):
        T1, T2 = getattr(xo, xt.XONAME[k1]), getattr(xo, xt.XONAME[k2])
        nm = "mix_%s_%s" % (k1, k2)
        src.append("/*gpukern*/ int64_t %s(%s a, C17S obj, /*gpuglmem*/ %s* p, /*gpuglmem*/ uint8_t* out){ memcpy(out, &a, sizeof a); memcpy(out + 8, p, sizeof(%s)); double b = C17S_get_b(obj); memcpy(out + 16, &b, 8); return (int64_t)(intptr_t) obj; }" % (nm, ctype(k1), ctype(k2), ctype(k2)))
        ks[nm] = xo.Kernel(args=[xo.Arg(T1, name="a"), xo.Arg(c["S"], name="obj"), xo.Arg(T2, pointer=True, name="p"), xo.Arg(xo.UInt8, pointer=True, name="out")], ret=xo.Arg(xo.Int64))
    for nm, cls in c.items():
        cn = cls._c_type
        src.append("/*gpukern*/ int64_t addr_%s(%s obj){ return (int64_t)(intptr_t) obj; }" % (nm, cn))
        ks["addr_" + nm] = xo.Kernel(args=[xo.Arg(cls, name="obj")], ret=xo.Arg(xo.Int64))
    src.append("/*gpukern*/ double read_S(const C17S obj){ return C17S_get_b(obj) + (double) C17S_get_a(obj); }")
    ks["read_S"] = xo.Kernel(args=[xo.Arg(c["S"], const=True, name="obj")], ret=xo.Arg(xo.Float64))
    src.append("/*gpukern*/ int64_t read_D(C17D obj){ return 1000 * C17D_len_v(obj) + C17D_get_k(obj) + (C17D_len_v(obj) ? 7 * C17D_get_v(obj, C17D_len_v(obj) - 1) : 0); }")
    ks["read_D"] = xo.Kernel(args=[xo.Arg(c["D"], name="obj")], ret=xo.Arg(xo.Int64))
    src.append("/*gpukern*/ double read_A(%s obj){ return %s_len(obj) ? %s_get(obj, %s_len(obj) - 1) : -1.0; }" % ((c["A"]._c_type,) * 4))
    ks["read_A"] = xo.Kernel(args=[xo.Arg(c["A"], name="obj")], ret=xo.Arg(xo.Float64))
    hn = c["H"]._c_type
    src.append("/*gpukern*/ double read_H(%s obj){ return %s_get_b(obj) + (double) %s_get_a(obj) + (%s_len_w(obj) ? 3 * %s_get_w(obj, %s_len_w(obj) - 1) : 0); }" % ((hn,) * 6))
    ks["read_H"] = xo.Kernel(args=[xo.Arg(c["H"], name="obj")], ret=xo.Arg(xo.Float64))
    src.append("/*gpukern*/ void bump_H(%s obj){ %s_set_a(obj, %s_get_a(obj) + 1); }" % ((hn,) * 3))
    ks["bump_H"] = xo.Kernel(args=[xo.Arg(c["H"], name="obj")])
    src.append("/*gpukern*/ int64_t read_U(C17U obj){ return C17U_typeid(obj); }")
    ks["read_U"] = xo.Kernel(args=[xo.Arg(c["U"], name="obj")], ret=xo.Arg(xo.Int64))
    return "\n".join(src), ks


_ctx = {}


def context(omp):
    import xobjects as xo

    if omp not in _ctx:
        ctx = xo.ContextCpu(omp_num_threads=omp)
        src, ks = source_and_kernels()
        ctx.add_kernels(sources=[src], kernels=ks, extra_compile_args=("-O0", "-w"), extra_link_args=())
        _ctx[omp] = ctx
    return _ctx[omp]


def extremes(k):
    if k[0] == "f":
        return [0.0, -0.0, 1.5, -2.25, float("inf"), float("-inf"), float("nan")] + xt.EXT_F[k][4:]
    lo, hi = xt.int_range(k)
    return [0, 1, lo, hi, hi - 1, lo + 1 if lo else 2]


def same_bits(dt, a, b):
    return np.dtype(dt).type(a).tobytes() == np.dtype(dt).type(b).tobytes()


def base_of(buf):
    return np.frombuffer(buf.buffer, dtype="int8").ctypes.data


class V:
    def __init__(self, res, omp):
        self.res, self.omp, self.sig = res, omp, set()

    def bad(self, oracle, failure, detail, **feat):
        self.res.outcomes["bad:" + failure.split(":")[0]] += 1
        if (oracle, failure) in self.sig:
            return
        self.sig.add((oracle, failure))
        f = dict(omp=self.omp)
        f.update(feat)
        if "history" in feat:
            feat = dict(feat, bufkind=getattr(self, "bufkind", "np"))
        self.res.violations.append(common.violation(oracle, failure, f, dict(part="scalars" if "history" not in feat else "history", omp=self.omp, **{k: common.jsonable(v) for k, v in feat.items()}), detail))


def run_scalars(omp, res, seed):
    import xobjects as xo

    ctx = context(omp)
    K = ctx.kernels
    v = V(res, omp)
    c = classes()
    sobj = c["S"](a=5, b=2.5, _context=ctx)
    for k in SC:
        dt = xt.NPDT[k]
        for x in extremes(k):
            res.transitions += 2
            res.events["identity"] += 1
            res.events["store"] += 1
            try:
                r = getattr(K, "id_" + k)(x=x)
                if not same_bits(dt, r, x):
                    v.bad("C17.return", "return-value-differs", "id_%s(%r) -> %r" % (k, x, r), kind=k)
                out = np.zeros(16, dtype="u1")
                getattr(K, "st_" + k)(x=x, out=out)
                want = np.dtype(dt).type(x).tobytes()
                if out[: len(want)].tobytes() != want or out[len(want):].any():
                    v.bad("C17.scalar", "scalar-bits-differ", "st_%s(%r) stored %s" % (k, x, out.tobytes().hex()), kind=k)
                else:
                    res.outcomes["ok:scalar"] += 1
            except Exception as e:
                v.bad("C17.accepts", "legal-call-raises:" + type(e).__name__, "%s %r: %r" % (k, x, e), kind=k)
        # numpy pointer arguments
        base = (np.arange(24) % 100 + 1).astype(dt)
        views = [("whole", base), ("offset-slice", base[5:]), ("strided-slice", base[3::2]), ("2d-subblock", base.reshape(4, 6)[1:, 2:]), ("reversed", base[::-1]), ("one-element", base[7:8]), ("f-order", np.asfortranarray(base.reshape(4, 6))[2:, 1:]), ("zero-dim", base[9:10].reshape(()))]
        for vname, a in views:
            res.transitions += 2
            res.events["numpy-pointer"] += 1
            try:
                addr = getattr(K, "addr_" + k)(p=a)
                first = getattr(K, "first_" + k)(p=a)
                want = a.__array_interface__["data"][0]
                if int(addr) != want:
                    v.bad("C17.array-pointer", "not-first-element", "addr_%s(%s) -> %#x, first element at %#x (base array at %#x)" % (k, vname, int(addr), want, base.__array_interface__["data"][0]), kind=k, view=vname)
                elif not same_bits(dt, first, a.flat[0]):
                    v.bad("C17.array-pointer", "first-element-value", "first_%s(%s) -> %r, a.flat[0] = %r" % (k, vname, first, a.flat[0]), kind=k, view=vname)
                else:
                    res.outcomes["ok:numpy-pointer"] += 1
            except Exception as e:
                v.bad("C17.accepts", "legal-call-raises:" + type(e).__name__, "numpy %s %s: %r" % (k, vname, e), kind=k, view=vname)
        # xobject arrays as pointer arguments (objects at offset != 0, after a relocation)
        T = getattr(xo, xt.XONAME[k])
        for bkind, acls, val in [(bk,) + av for bk in ("np", "ba") for av in ((T[:], base[:5]), (T[3], base[:3]), (T[2, 3], base[:6].reshape(2, 3)))]:
            buf = place.traced(bkind, 8, context=ctx)
            buf.allocate(5, align=False)
            res.transitions += 2
            res.events["xobject-array-pointer"] += 1
            try:
                xa = acls(val, _buffer=buf)
                buf.allocate(buf.capacity)  # relocate
                addr = getattr(K, "addr_" + k)(p=xa)
                first = getattr(K, "first_" + k)(p=xa)
                want = base_of(buf) + xa._offset + xa._data_offset
                if int(addr) != want:
                    v.bad("C17.array-pointer", "xobject-array-not-first-element", "addr_%s(%s in a %s buffer) -> %#x, expected %#x" % (k, acls.__name__, bkind, int(addr), want), kind=k, view=acls.__name__, buffer_kind=bkind)
                elif not same_bits(dt, first, val.flat[0]):
                    v.bad("C17.array-pointer", "xobject-array-first-value", "first_%s -> %r" % (k, first), kind=k, view=acls.__name__)
                else:
                    res.outcomes["ok:xobject-array-pointer"] += 1
            except Exception as e:
                v.bad("C17.accepts", "xobject-array-as-pointer-raises:" + type(e).__name__, "%s %s: %r" % (k, acls.__name__, e), kind=k, view="xobject-array")
        # refusals
        other = "<f8" if k != "f64" else "<i4"
        okind = "f64" if k != "f64" else "i32"
        wrong = []
        # the two public ways to reach a kernel of a context: the dispatcher attribute and the kernel object itself (item access)
        for route, get in (("attr", lambda nm: getattr(K, nm)), ("item", lambda nm: K[nm])):
            if np.dtype(dt).itemsize > 1:  # the right kind and width in the other byte order is another element type
                wrong += [("wrong-byteorder-numpy:" + route, lambda get=get: get("first_" + k)(p=np.ones(4, dtype=np.dtype(dt).newbyteorder())))]
            wrong += [("wrong-dtype-numpy:" + route, lambda get=get: get("first_" + k)(p=np.ones(4, dtype=other))),
                      ("wrong-dtype-xobject:" + route, lambda get=get: get("first_" + k)(p=getattr(xo, xt.XONAME[okind])[:]([1, 2, 3], _context=ctx))),
                      ("positional:" + route, lambda get=get: get("id_" + k)(1)), ("missing:" + route, lambda get=get: get("st_" + k)(x=1)),
                      ("extra:" + route, lambda get=get: get("id_" + k)(x=1, y=2)), ("misnamed:" + route, lambda get=get: get("id_" + k)(z=1)),
                      ("extra-pointer:" + route, lambda get=get: get("first_" + k)(p=np.ones(4, dtype=dt), q=np.ones(4, dtype=dt))),
                      ("positional+named:" + route, lambda get=get: get("st_" + k)(1, out=np.zeros(8, dtype="u1")))]
        # ... and a legal call through the kernel object
        res.transitions += 1
        res.events["by-value"] += 1
        try:
            r = K["id_" + k](x=extremes(k)[1])
            if not same_bits(dt, r, extremes(k)[1]):
                v.bad("C17.by-value", "value-changed", "id_%s through the kernel object -> %r" % (k, r), kind=k, route="item")
        except Exception as e:
            v.bad("C17.accepts", "legal-call-raises:" + type(e).__name__, "id_%s through the kernel object: %r" % (k, e), kind=k, route="item")
        for wname, fn in wrong:
            res.transitions += 1
            res.events["refusal"] += 1
            try:
                fn()
            except Exception:
                res.outcomes["ok:refused"] += 1
                continue
            v.bad("C17.refuses", "accepted:" + wname, "%s with kind %s did not raise" % (wname, k), kind=k, misuse=wname)
    # arity 3: every (by-value kind, pointer kind) pair with an xobject in the middle
    for k1, k2 in itertools.product(SC, SC):
        x = extremes(k1)[3]
        parr = (np.arange(6) + 3).astype(xt.NPDT[k2])[2:]
        out = np.zeros(24, dtype="u1")
        res.transitions += 1
        res.events["mix"] += 1
        try:
            r = getattr(K, "mix_%s_%s" % (k1, k2))(a=x, obj=sobj, p=parr, out=out)
            w1 = np.dtype(xt.NPDT[k1]).type(x).tobytes()
            w2 = parr[:1].tobytes()
            ok = out[: len(w1)].tobytes() == w1 and out[8 : 8 + len(w2)].tobytes() == w2 and out[16:24].tobytes() == np.float64(2.5).tobytes() and int(r) == base_of(sobj._buffer) + sobj._offset
            if not ok:
                v.bad("C17.mix", "argument-mixup", "mix_%s_%s: out=%s ret=%#x" % (k1, k2, out.tobytes().hex(), int(r)), kind=k1, kind2=k2)
            else:
                res.outcomes["ok:mix"] += 1
        except Exception as e:
            v.bad("C17.accepts", "legal-call-raises:" + type(e).__name__, "mix %s %s: %r" % (k1, k2, e), kind=k1, kind2=k2)
    res.states += 1


# --------------------------------------------------------------------------
# history system


NEW = [("S", True), ("S", False), ("D", True), ("D", False), ("A", False), ("U", True), ("H", True)]


class World:
    def __init__(self, omp, kind="np"):
        self.ctx = context(omp)
        self.buf = place.traced(kind, 8, context=self.ctx, default_alignment=8)
        self.buf.allocate(3, align=False)  # nothing starts at offset 0
        self.other = place.traced(kind, 64, context=self.ctx, default_alignment=8)  # (hybrid objects can be moved there and back)
        self.other.allocate(5, align=False)
        self.objs = []  # [kind, handle, model, live]
        self.n = 0

    def events(self):
        ev = [("new", k, al) for k, al in NEW] if sum(1 for o in self.objs if o[3]) < 4 else []
        ev.append(("grow",))
        for i, o in enumerate(self.objs):
            if o[3] and o[0] != "H":
                ev.append(("free", i))
            if o[3] and o[0] == "H":
                # the same python object at another place: of the same buffer (no growth needed: the storage stays) / of
                # another buffer; and written by a kernel
                ev.append(("move", i, "same"))
                ev.append(("move", i, "other"))
                ev.append(("bump", i))
        return ev

    def apply(self, ev):
        c = classes()
        self.n += 1
        n = self.n
        if ev[0] == "new":
            _, k, al = ev
            kw = dict(_buffer=self.buf, _offset="aligned" if al else "packed")
            if k == "S":
                m = dict(a=100 + n, b=n + 0.5)
                h = c["S"](m, **kw)
            elif k == "D":
                m = dict(s="s" * (n % 5), v=list(range(n, n + 1 + n % 3)), k=n)
                h = c["D"](m, **kw)
            elif k == "A":
                m = [float(n + i) + 0.25 for i in range(1 + n % 4)]
                h = c["A"](m, **kw)
            elif k == "H":
                m = dict(a=200 + n, b=n + 0.75, w=[float(n + i) for i in range(n % 3)])
                h = _hyb["H"](_buffer=self.buf, **m)
            else:
                tgt = [o for o in self.objs if o[3] and o[0] in ("S", "D")]
                m = self.objs.index(tgt[-1]) if tgt else None
                h = c["U"](tgt[-1][1] if tgt else None, **kw)
            self.objs.append([k, h, m, True])
        elif ev[0] == "grow":
            cap = self.buf.capacity
            k = 0
            while self.buf.capacity == cap and k < 64:
                off = self.buf.allocate(max(cap, 8))
                k += 1
        elif ev[0] == "move":
            o = self.objs[ev[1]]
            here = o[1]._buffer
            dest = here if ev[2] == "same" else (self.other if here is self.buf else self.buf)
            o[1].move(_buffer=dest)
        elif ev[0] == "bump":
            o = self.objs[ev[1]]
            self.ctx.kernels.bump_H(obj=o[1])
            o[2]["a"] += 1
        else:
            o = self.objs[ev[1]]
            sz = o[1]._size if getattr(o[1], "_size", None) is not None else o[1]._get_size()
            self.buf.free(o[1]._offset, sz)
            o[3] = False
            for p in self.objs:  # a union reference to a freed object is no longer passed to kernels
                if p[0] == "U" and p[2] == ev[1]:
                    p[3] = False

    def key(self):
        return hashlib.sha1(place.whole(self.buf) + repr([(o[0], int(o[1]._offset), o[3], o[1]._buffer is self.buf) for o in self.objs]).encode() + place.whole(self.other) + repr(sorted((c.start, c.end) for c in self.buf.chunks)).encode()).digest()


def check_world(w, v, res, hist):
    K = w.ctx.kernels
    for i, (k, h, m, live) in enumerate(w.objs):
        if not live:
            continue
        base = base_of(h._buffer)
        res.transitions += 2
        res.events["object-pointer"] += 1
        try:
            if k == "H":
                # a hybrid object reads in python what the model says (the kernel's writes included), and the bare struct
                # it dresses is passed like the object itself
                if (int(h.a), float(h.b), [float(x) for x in h.w]) != (m["a"], m["b"], m["w"]):
                    v.bad("C17.object-pointer", "hybrid-object-differs-in-python", "object %d: python reads %r, expected %r" % (i, (int(h.a), float(h.b), list(h.w)), m), kind=k, history=hist)
                    continue
                ax = K.addr_H(obj=h._xobject)
                if int(ax) != base + int(h._offset):
                    v.bad("C17.object-pointer", "not-current-location", "struct dressed by object %d (H): kernel received %#x, expected %#x" % (i, int(ax), base + int(h._offset)), kind=k, history=hist)
            if k != "U":
                # the same object passed as a view rebuilt from (buffer, offset)
                hv = (classes()["H"] if k == "H" else type(h))._from_buffer(h._buffer, h._offset)
                av = getattr(K, "addr_" + k)(obj=hv)
                if int(av) != base + int(h._offset):
                    v.bad("C17.object-pointer", "view-not-current-location", "view of object %d (%s): kernel received %#x, expected %#x" % (i, k, int(av), base + int(h._offset)), kind=k, history=hist)
            addr = getattr(K, "addr_" + k)(obj=h)
            if int(addr) != base + int(h._offset):
                v.bad("C17.object-pointer", "not-current-location", "object %d (%s) at offset %d: kernel received %#x, storage base %#x" % (i, k, int(h._offset), int(addr), base), kind=k, history=hist)
                continue
            r = getattr(K, "read_" + k)(obj=h)
            if k == "S":
                want = m["b"] + m["a"]
            elif k == "D":
                want = 1000 * len(m["v"]) + m["k"] + 7 * m["v"][-1]
            elif k == "A":
                want = m[-1]
            elif k == "H":
                want = m["b"] + m["a"] + (3 * m["w"][-1] if m["w"] else 0)
            else:
                want = -1 if m is None else ["S", "D"].index(w.objs[m][0])
            if r != want:
                v.bad("C17.object-pointer", "content-read-in-C-differs", "object %d (%s): kernel read %r, expected %r" % (i, k, r, want), kind=k, history=hist)
            else:
                res.outcomes["ok:object-pointer"] += 1
        except Exception as e:
            v.bad("C17.accepts", "legal-call-raises:" + type(e).__name__, "object %s: %r" % (k, e), kind=k, history=hist)


def touch_world(w):
    """kernel calls are part of every history: each live object is passed to its kernels after every event, so that
    anything a kernel call remembers (a cached base address, a cached pointer) is exposed to later growth / frees"""
    K = w.ctx.kernels
    for k, h, m, live in w.objs:
        if live:
            try:
                a = getattr(K, "addr_" + k)(obj=h)
                if int(a) == base_of(h._buffer) + int(h._offset):  # never dereference a pointer that is already known to be wrong
                    getattr(K, "read_" + k)(obj=h)
            except Exception:
                pass  # judged (and reported) by check_world on the state where it happens


def build_world(omp, hist, kind="np"):
    w = World(omp, kind)
    touch_world(w)
    for ev in hist:
        w.apply(ev)
        touch_world(w)
    return w


def run_history(omp, first, depth, res, seed, kind="np"):
    v = V(res, omp)
    v.bufkind = kind
    def build_world(o, h, _bw=globals()["build_world"]):
        return _bw(o, h, kind)

    w0 = build_world(omp, [])
    ev0 = w0.events()
    if first >= len(ev0):
        return
    seen = set()
    frontier = [[ev0[first]]]
    w = build_world(omp, frontier[0])
    res.events[ev0[first][0]] += 1
    check_world(w, v, res, [list(map(str, e)) for e in frontier[0]])
    seen.add(w.key())
    for d in range(1, depth):
        nf = []
        for hist in frontier:
            wb = build_world(omp, hist)
            for ev in wb.events():
                w = build_world(omp, hist)
                try:
                    w.apply(ev)
                    res.events["call-in-history"] += len(hist) + 1
                except Exception as e:
                    v.bad("C17.accepts", "event-raises:" + ev[0] + ":" + common.exc_failure(e), repr(e), history=[list(map(str, x)) for x in hist + [ev]])
                    continue
                res.events[ev[0]] += 1
                check_world(w, v, res, [list(map(str, x)) for x in hist + [ev]])
                k = w.key()
                if k not in seen:
                    seen.add(k)
                    nf.append(hist + [ev])
        res.max_depth = d + 1
        frontier = nf
    res.states += len(seen)


REREG = {
    # kernel `ident` in three declarations of one context: scalar kind and element kind of the pointer parameter differ
    "i64": ("int64_t ident(int64_t x, int64_t* p){ return x + p[0]; }", "i64"),
    "f64": ("double ident(double x, double* p){ return x + p[0]; }", "f64"),
    "i32": ("int32_t ident(int32_t x, int32_t* p){ return x + p[0]; }", "i32"),
}


def run_rereg(omp, tier, res, seed):
    """histories of (declare `ident` with one of three signatures | call it) in ONE context, through both routes: every call
    reaches the declaration that is current, converts scalars to ITS type and refuses arrays of another element kind"""
    import xobjects as xo

    v = V(res, omp)
    kinds = sorted(REREG)
    depth = 3 if tier == "quick" else 4
    for decls in itertools.product(kinds, repeat=depth):
        if any(a == b for a, b in zip(decls, decls[1:])):
            continue
        ctx = xo.ContextCpu(omp_num_threads=omp)
        res.cases += 1
        for step, k in enumerate(decls):
            src, sk = REREG[k]
            T = getattr(xo, xt.XONAME[sk])
            res.transitions += 1
            res.events["declare"] += 1
            try:
                ctx.add_kernels(sources=[src], kernels={"ident": xo.Kernel(args=[xo.Arg(T, name="x"), xo.Arg(T, pointer=True, name="p")], ret=xo.Arg(T))},
                                extra_compile_args=("-O0", "-w"), extra_link_args=())
            except Exception as e:
                v.bad("C17.accepts", "declaration-raises:" + type(e).__name__, repr(e)[-300:], history=list(decls[: step + 1]))
                break
            dt = xt.NPDT[sk]
            x = 2**53 + 1 if sk == "i64" else (2**31 - 1 if sk == "i32" else 0.1)
            for route in ("attr", "item"):
                call = (lambda **kw: ctx.kernels.ident(**kw)) if route == "attr" else (lambda **kw: ctx.kernels["ident"](**kw))
                res.transitions += 2
                res.events["call-after-redeclaration"] += 1
                feat = dict(history=list(decls[: step + 1]), route=route, kind=sk)
                try:
                    r = call(x=x, p=np.zeros(2, dtype=dt))
                    if not same_bits(dt, r, x):
                        v.bad("C17.scalar", "reaches-superseded-declaration", "ident(%r) after %r returns %r (%s)" % (x, list(decls[: step + 1]), r, route), **feat)
                        continue
                except Exception as e:
                    v.bad("C17.accepts", "legal-call-raises:" + type(e).__name__, "after %r (%s): %r" % (list(decls[: step + 1]), route, e), **feat)
                    continue
                other = [o for o in kinds if o != k][0]
                try:
                    call(x=x, p=np.zeros(2, dtype=xt.NPDT[REREG[other][1]]))
                    v.bad("C17.refuses", "accepted:wrong-dtype-after-redeclaration", "an array of %s accepted for the current %s declaration (%s)" % (other, k, route), **feat)
                except Exception:
                    res.outcomes["ok:rereg"] += 1
        res.states += 1


def run_shard(shard, tier, seed):
    res = common.ShardResult()
    if shard[0] == "rereg":
        run_rereg(shard[1], tier, res, seed)
        res.nontrivial = res.states
        return res
    if shard[0] == "scalars":
        run_scalars(shard[1], res, seed)
        res.sample(dict(part="scalars", omp=shard[1], kernels=len(source_and_kernels()[1])))
    else:
        run_history(shard[1], shard[2], 4 if tier == "quick" else 5, res, seed, shard[3])
    res.cases = 1
    res.nontrivial = res.states
    return res


def on_crash(res, shard, exitcode, crumb):
    if exitcode is not None and exitcode < 0:
        res.violations.append(common.violation("C17.crash", "kernel-call-crashes:signal%d" % -exitcode, dict(signal=-exitcode), dict(shard=list(map(str, shard))), "worker killed by signal %d" % -exitcode))
    else:
        res.notes.append("HARNESS-ERROR: worker died with exit code %r" % (exitcode,))


def replay(case):
    res = common.ShardResult()
    if case.get("part") == "history":
        v = V(res, case["omp"])

        def parse(x):
            return True if x == "True" else False if x == "False" else int(x) if x.lstrip("-").isdigit() else x

        hist = [tuple(parse(x) for x in e) for e in case["history"]]
        w = World(case["omp"], case.get("bufkind", "np"))
        touch_world(w)
        for ev in hist[:-1]:
            w.apply(ev)
            touch_world(w)
        try:
            w.apply(hist[-1])
        except Exception as e:
            return ["event-raises: %r" % (e,)]
        check_world(w, v, res, case["history"])
        return res.violations
    run_scalars(case["omp"], res, 0)
    return res.violations
