"""C08: references alias, null and survive buffer growth as documented (DESIGN.md 2/C08).

History system with a heap-graph reference model: objects have identity; a slot points to an object id or is
null.  The world is rebuilt from scratch for every explored history (replay), so no state leaks between runs."""
import hashlib
import struct as pystruct

import numpy as np

from . import common, hand, place, xt
from .xt import STR, Arr, Ref, Sc, St, URef

PID = "C08"

P = St(("a", Sc("i64")), ("b", Sc("f64")))
Q = St(("s", STR), ("n", Sc("i16")))
DA = Arr(Sc("f64"), (None,))

# holder name -> (type, slot paths, member types of the slot)
HOLDERS = {
    "struct-ref": (St(("r", Ref(P)), ("k", Sc("i64"))), [("r",)], [P]),
    "struct-uref": (St(("u", URef(P, Q)), ("k", Sc("i64"))), [("u",)], [P, Q]),
    "array-ref": (Arr(Ref(P), (2,)), [((0,),), ((1,),)], [P]),
    "array-uref": (Arr(URef(P, Q), (None,)), [((0,),), ((1,),)], [P, Q]),
    "dyn-array-ref": (St(("r", Ref(DA)), ("k", Sc("i64"))), [("r",)], [DA]),
    "nested-holder": (St(("inner", St(("r", Ref(P)), ("z", Sc("i8")))), ("k", Sc("i64"))), [("inner", "r")], [P]),
    "uref-array-member": (St(("u", URef(DA, P)), ("t", STR)), [("u",)], [DA, P]),
    "standalone-uref": (URef(P, Q), [()], [P, Q]),
    # a chain: the referent itself holds a reference (a foreign / plain-data binding must duplicate the whole chain)
    "ref-chain": (St(("r", Ref(St(("x", Sc("i64")), ("r2", Ref(P))))), ("k", Sc("i64"))), [("r",)], [St(("x", Sc("i64")), ("r2", Ref(P)))]),
    # two union classes sharing their members in different positions (member index is per union class)
    "two-unions": (St(("u", URef(P, Q)), ("w", URef(Q, P)), ("k", Sc("i64"))), [("u",), ("w",)], [P, Q]),
    "union-subset": (St(("u", URef(Q, P)), ("w", URef(P)), ("k", Sc("i8"))), [("u",), ("w",)], [P, Q]),
    # the referents are arrays WITHOUT ITEMS: an empty object is an object, not a null
    "dyn-array-ref-empty": (St(("r", Ref(DA)), ("k", Sc("i64"))), [("r",)], [DA]),
    "uref-array-member-empty": (St(("u", URef(DA, P)), ("t", STR)), [("u",)], [DA, P]),
    "array-of-array-refs-empty": (Arr(Ref(DA), (2,)), [((0,),), ((1,),)], [DA]),
}


def describe(tier):
    return dict(
        rule="(second system, shards 'declared-default') reference and union-reference fields DECLARED with a default (default= list / (name, data), default_factory= object / tuple): "
        "from {field omitted, explicit nulls, values, one null} BFS over {set null, set value, copy same buffer / other buffer / other context, embed by value, array item, embed from a dictionary of nulls}: "
        "a null stays a null wherever it travels, an omitted field gets the default. (first system) history system: holder types {struct with Ref, struct with UnionRef, static array of Ref, dynamic array of UnionRef, Ref to a dynamic array, "
        "struct nesting a ref-holding struct, union with an array member, stand-alone UnionRef}; world = holder buffer (small, traced, grow_step 8) with "
        "two P and one Q/array object, one foreign buffer; events = the property's list {construct another holder, bind-to-existing, bind-to-value, "
        "bind-to-foreign-object, bind-to-null, write-through-ref, write-through-original, allocate-until-growth}; heap-graph model; every transition "
        "checks: null <=> None and raw words -2^63/-1, alias => same offset + writes visible both ways, value/foreign => new extent allocated during the "
        "transition, independent afterwards; every non-null slot resolves to a live traced allocation of its buffer with the recorded member type.",
        bounds=dict(holders=sorted(HOLDERS), depth="4 (3 for two-slot holders)" if tier == "quick" else "5 (4 for two-slot holders)", max_holders=2, sharding="one BFS per (holder, first event); states deduplicated within a shard"),
        assumptions=["object identity in the model = (buffer, offset) of a live traced allocation"],
        must_fire=["bind-existing", "bind-existing-view", "bind-null-view", "bind-value", "bind-foreign", "bind-null", "write-ref", "write-orig", "grow", "construct", "assign-parent"],
    )


def shards(tier, seed):
    """one shard per (holder, first event): the BFS below each first event is independent"""
    common.quiet()
    out = []
    for hname in sorted(HOLDERS):
        n1 = len(events(build(hname, [], 0)))
        out += [(hname, i) for i in range(n1)]
    out += [("declared-default", "default"), ("declared-default", "factory")]
    # the array holders once more with their array class GIVEN A NAME by subclassing (class Line(xo.Ref[Elem][2]): pass)
    for hname in ("array-ref", "array-uref", "array-of-array-refs-empty"):
        n1 = len(events(build(hname, [], 0)))
        out += [(hname + "@named", i) for i in range(n1)]
    return out[seed % len(out):] + out[: seed % len(out)]


_EMPTY = [False]


def obj_value(t, n):
    if _EMPTY[0] and t[0] == "A":
        return {"shape": tuple(0 if d is None else d for d in t[2]), "items": {}}
    return xt.gen(t, "ramp", xt.Ctr(n * 10))


class World:
    def __init__(self, hname, salt=0):
        self.hname = hname
        hname = hname.split("@")[0]
        _EMPTY[0] = hname.endswith("-empty")
        self.ht, self.slots, self.members = HOLDERS[hname]
        self.B = place.traced("np", 8, default_alignment=8, grow_step=8)
        instrument(self.B)
        self.F = place.traced("np", 0, context=place.ctx(1))
        self.objs = {}  # id -> dict(t, handle, value)  (model value)
        self.nid = 0
        self.holders = []  # [(handle, {slotpath: id|None})]
        # pre-existing objects in the holder buffer: two of the first member type, one of the second (if any)
        self.pool = []
        m0 = self.members[0]
        for i in range(2):
            self.pool.append(self.new_obj(m0, obj_value(m0, i + 1), self.B))
        if len(self.members) > 1:
            self.pool.append(self.new_obj(self.members[1], obj_value(self.members[1], 3), self.B))
        self.foreign = self.new_obj(m0, obj_value(m0, 7), self.F)
        self.add_holder(None)

    def new_obj(self, t, v, buf):
        h = xt.construct(t, xt.to_py(t, v), _buffer=buf)
        self.nid += 1
        self.objs[self.nid] = dict(t=t, h=h, v=v, buf=buf)
        return self.nid

    def holder_arg(self, bind):
        """constructor argument for a holder with every slot bound to `bind` (None | object id)"""
        ht = self.ht
        tgt = None if bind is None else self.objs[bind]["h"]
        if ht[0] == "U":
            return tgt
        if ht[0] == "A":
            return [tgt, tgt]
        arg = {}
        for n, ft in ht[1]:
            if ft[0] in ("R", "U"):
                okm = bind is None or self.objs[bind]["t"] in (list(ft[1]) if ft[0] == "U" else [ft[1]])
                arg[n] = tgt if okm else None
            elif ft[0] == "St":
                arg[n] = {m: (tgt if mt[0] in ("R", "U") else xt.gen(mt, "ramp")) for m, mt in ft[1]}
            else:
                arg[n] = xt.gen(ft, "ramp")
        return arg

    def add_holder(self, bind):
        h = xt.construct(self.ht, self.holder_arg(bind), _buffer=self.B)
        self.holders.append((h, {sp: (bind if bind is None or self.objs[bind]["t"] in self.slot_members(sp) else None) for sp in self.slots}))

    # ---- implementation-side accessors
    def slot_read(self, hi, sp):
        h = self.holders[hi][0]
        if self.ht[0] == "U":
            return h.get()
        t, x = hand.nav(self.ht, h, sp)
        return x

    def slot_write(self, hi, sp, value):
        h = self.holders[hi][0]
        hand.assign(self.ht, h, sp, value)

    def slot_addr(self, hi, sp):
        h = self.holders[hi][0]
        if self.ht[0] == "U":
            return int(h._offset)
        pt, ph = hand.nav(self.ht, h, sp[:-1])
        return int(ph._get_offset(sp[-1]))

    def slot_members(self, sp):
        st = self.slot_type(sp)
        return list(st[1]) if st[0] == "U" else [st[1]]

    def slot_type(self, sp):
        t = self.ht
        for p in sp:
            t = t[1] if isinstance(p, tuple) else dict(t[1])[p]
        return t


def first_leaf(t, v):
    for path, lt, lv in xt.leaf_paths(t, v):
        if lt[0] == "S":
            return path, lt, lv
    return None


def events(w, max_holders=2):
    evs = []
    for hi, (h, binding) in enumerate(w.holders):
        for sp in w.slots:
            st = w.slot_type(sp)
            if w.ht[0] != "U":  # a stand-alone union reference has no setter
                for oid in w.pool:
                    if w.objs[oid]["t"] in w.slot_members(sp):
                        evs.append(("bind-existing", hi, sp, oid))
                for mi, m in enumerate(w.slot_members(sp)):
                    evs.append(("bind-value", hi, sp, mi))
                if w.objs[w.foreign]["t"] in w.slot_members(sp):
                    evs.append(("bind-foreign", hi, sp))
                evs.append(("bind-null", hi, sp))
                # the same rebinding done through ANOTHER Python object for the same bytes (a view rebuilt from the buffer);
                # the holder's own handle, read before and after, must follow
                pool_ok = [oid for oid in w.pool if w.objs[oid]["t"] in w.slot_members(sp)]
                if pool_ok:
                    evs.append(("bind-existing-view", hi, sp, pool_ok[-1]))
                evs.append(("bind-null-view", hi, sp))
            if binding[sp] is not None and first_leaf(w.objs[binding[sp]]["t"], w.objs[binding[sp]]["v"]) is not None:
                evs.append(("write-ref", hi, sp))
            if len(sp) > 1 and not isinstance(sp[-2], tuple):
                # the reference lives in a struct embedded by value: assign that whole struct from an instance of the same
                # class that lives in the same buffer / in the foreign buffer and whose reference is bound
                for where in ("same", "foreign"):
                    evs.append(("assign-parent", hi, sp, where))
    for oid in w.pool[:2] + [w.foreign]:
        if first_leaf(w.objs[oid]["t"], w.objs[oid]["v"]) is not None:  # an array without items has nothing to write to
            evs.append(("write-orig", oid))
    evs.append(("grow",))
    if len(w.holders) < max_holders:
        for b in (None, w.pool[0]):
            evs.append(("construct", b))
        if w.ht[0] != "U":
            evs.append(("construct", "copy"))
    return evs


def apply(w, ev, n):
    """execute on implementation and model.  Returns list of ids created by this event."""
    kind = ev[0]
    created = []
    if kind == "bind-existing":
        _, hi, sp, oid = ev
        w.slot_write(hi, sp, w.objs[oid]["h"])
        w.holders[hi][1][sp] = oid
    elif kind in ("bind-existing-view", "bind-null-view"):
        hi, sp = ev[1], ev[2]
        h = w.holders[hi][0]
        w.slot_read(hi, sp)  # the handle has looked at the slot before
        view = xt.build(w.ht)._from_buffer(h._buffer, h._offset)
        hand.assign(w.ht, view, sp, w.objs[ev[3]]["h"] if kind == "bind-existing-view" else None)
        w.holders[hi][1][sp] = ev[3] if kind == "bind-existing-view" else None
    elif kind == "bind-value":
        _, hi, sp, mi = ev
        st = w.slot_type(sp)
        mt = w.slot_members(sp)[mi]
        v = obj_value(mt, 20 + n)
        arg = xt.to_py(mt, v)
        if st[0] == "U":
            arg = (xt.build(mt).__name__, arg)
        w.slot_write(hi, sp, arg)
        w.nid += 1
        w.objs[w.nid] = dict(t=mt, h=None, v=v, buf=w.B, new=True)
        w.holders[hi][1][sp] = w.nid
        created.append(w.nid)
    elif kind == "bind-foreign":
        _, hi, sp = ev
        fo = w.objs[w.foreign]
        w.slot_write(hi, sp, fo["h"])
        w.nid += 1
        w.objs[w.nid] = dict(t=fo["t"], h=None, v=fo["v"], buf=w.B, new=True)
        w.holders[hi][1][sp] = w.nid
        created.append(w.nid)
    elif kind == "bind-null":
        _, hi, sp = ev
        w.slot_write(hi, sp, None)
        w.holders[hi][1][sp] = None
    elif kind == "assign-parent":
        _, hi, sp, where = ev
        pt = w.ht
        for q in sp[:-1]:
            pt = dict(pt[1])[q]
        if where == "same":
            oid = w.pool[0]
            tgt = w.objs[oid]["h"]
            buf = w.B
        else:
            oid = None
            tgt = w.objs[w.foreign]["h"]
            buf = w.F
        arg = {}
        for n_, ft in pt[1]:
            arg[n_] = tgt if n_ == sp[-1] else xt.gen(ft, "ramp")
        inst = xt.construct(pt, arg, _buffer=buf)
        hand.assign(w.ht, w.holders[hi][0], sp[:-1], inst)
        if where == "same":
            w.holders[hi][1][sp] = oid
        else:
            fo = w.objs[w.foreign]
            w.nid += 1
            w.objs[w.nid] = dict(t=fo["t"], h=None, v=fo["v"], buf=w.B, new=True)
            w.holders[hi][1][sp] = w.nid
            created.append(w.nid)
    elif kind == "write-ref":
        _, hi, sp = ev
        oid = w.holders[hi][1][sp]
        o = w.objs[oid]
        path, lt, lv = first_leaf(o["t"], o["v"])
        nv = hand.alt_leaf(lt, lv, n)
        x = w.slot_read(hi, sp)
        hand.assign(o["t"], x, path, nv)
        o["v"] = xt.set_path(o["v"], path, nv)
    elif kind == "write-orig":
        _, oid = ev
        o = w.objs[oid]
        path, lt, lv = first_leaf(o["t"], o["v"])
        nv = hand.alt_leaf(lt, lv, n + 3)
        hand.assign(o["t"], o["h"], path, nv)
        o["v"] = xt.set_path(o["v"], path, nv)
    elif kind == "grow":
        cap = w.B.capacity
        k = 0
        while w.B.capacity == cap and k < 64:
            w.B.allocate(8)
            k += 1
    elif kind == "construct" and ev[1] == "copy":
        # another holder made as a COPY of the first one in the same buffer: references share their referents
        src, binding = w.holders[0]
        w.holders.append((xt.construct(w.ht, src, _buffer=w.B), dict(binding)))
    elif kind == "construct":
        w.add_holder(ev[1])
    else:
        raise ValueError(ev)
    return created


def check(w, created, res, ev_allocs):
    """the C08 oracle on the current state; returns list of (oracle, failure, detail)"""
    out = []
    raw = place.whole(w.B)
    for hi, (h, binding) in enumerate(w.holders):
        for sp in w.slots:
            oid = binding[sp]
            st = w.slot_type(sp)
            try:
                x = w.slot_read(hi, sp)
                addr = w.slot_addr(hi, sp)
            except Exception as e:
                out.append(("C08.resolves", "slot-read-raises:" + common.exc_failure(e), "%r %r" % (sp, e)))
                continue
            word = pystruct.unpack_from("<q", raw, addr)[0]
            tid = pystruct.unpack_from("<q", raw, addr + 8)[0] if st[0] == "U" else None
            res.oracles["slot"] += 1
            if oid is None:
                if x is not None:
                    out.append(("C08.null", "null-reads-as-object", "slot %r" % (sp,)))
                if word != xt.NULLOFF or (tid is not None and tid != -1):
                    out.append(("C08.null", "null-encoding", "slot %r holds offset word %d member index %r" % (sp, word, tid)))
                continue
            o = w.objs[oid]
            if x is None:
                out.append(("C08.resolves", "bound-slot-reads-None", "slot %r" % (sp,)))
                continue
            mname = xt.build(o["t"]).__name__
            if type(x).__name__ != mname:
                out.append(("C08.member-type", "wrong-class", "slot %r resolves to %s, recorded member %s" % (sp, type(x).__name__, mname)))
                continue
            if tid is not None and tid != w.slot_members(sp).index(o["t"]):
                out.append(("C08.member-type", "wrong-member-index", "slot %r index %d for member %s" % (sp, tid, mname)))
            if x._buffer is not w.B:
                out.append(("C08.own-buffer", "resolves-in-another-buffer", "slot %r" % (sp,)))
                continue
            off = int(x._offset)
            if addr + word != off:
                out.append(("C08.relative", "offset-word-not-relative-to-slot", "slot at %d word %d target %d" % (addr, word, off)))
            if o.get("new"):
                # created by a bind-to-value / bind-to-foreign: must be a fresh extent allocated during that transition
                if oid in created:
                    if off not in ev_allocs:
                        out.append(("C08.copy", "new-object-not-freshly-allocated", "slot %r target at %d, allocations during the transition %r" % (sp, off, sorted(ev_allocs))))
                    o["off"] = off
                    for pid in w.pool:
                        if int(w.objs[pid]["h"]._offset) == off:
                            out.append(("C08.copy", "new-object-aliases-existing", "slot %r" % (sp,)))
                elif o.get("off") is not None and o["off"] != off:
                    out.append(("C08.stable", "target-moved", "slot %r target was at %d now %d" % (sp, o["off"], off)))
            else:
                if off != int(o["h"]._offset):
                    out.append(("C08.alias", "not-the-same-object", "slot %r resolves to offset %d, the bound object lives at %d" % (sp, off, int(o["h"]._offset))))
            live = w.B.live
            sz = hand.size_of(x)
            if off not in live or live[off] != sz:
                out.append(("C08.resolves", "not-a-live-allocation", "slot %r target [%d,%d) ; live %r" % (sp, off, off + sz, sorted(live.items())[:8])))
            try:
                got = xt.read(o["t"], x)
            except Exception as e:
                out.append(("C08.resolves", "target-read-raises:" + common.exc_failure(e), repr(e)))
                continue
            if not xt.veq(got, o["v"]):
                out.append(("C08.value", "target-value", "slot %r: first difference at %r: %s" % ((sp,) + xt.vdiff(got, o["v"]))))
    # originals (visibility of writes through references, independence of copies)
    for oid in w.pool + [w.foreign]:
        o = w.objs[oid]
        try:
            got = xt.read(o["t"], o["h"])
        except Exception as e:
            out.append(("C08.value", "original-read-raises:" + common.exc_failure(e), repr(e)))
            continue
        res.oracles["original"] += 1
        if not xt.veq(got, o["v"]):
            out.append(("C08.value", "original-value", "object %d: first difference at %r: %s" % ((oid,) + xt.vdiff(got, o["v"]))))
    return out


def instrument(buf):
    """keep a full allocation history and the live set on the traced buffer"""
    buf.live = {}
    base_alloc, base_free = buf.allocate, buf.free

    def allocate(size, align=True):
        off = base_alloc(size, align=align)
        buf.live[int(off)] = int(size)
        return off

    def free(offset, size):
        buf.live.pop(int(offset), None)
        return base_free(offset, size)

    buf.allocate, buf.free = allocate, free


def touch(w):
    """every slot is read through its long-lived holder handle after every event of a history"""
    for hi in range(len(w.holders)):
        for sp in w.slots:
            try:
                x = w.slot_read(hi, sp)
                if x is not None:
                    x._offset
            except Exception:
                pass


def build(hname, hist, salt):
    w = World(hname, salt)
    touch(w)
    for i, ev in enumerate(hist):
        apply(w, ev, i)
        touch(w)
    return w


def canon(w):
    m = []
    for h, binding in w.holders:
        m.append(tuple(sorted((repr(k), v) for k, v in binding.items())))
    vals = tuple((oid, repr(hist_repr(o["v"]))) for oid, o in sorted(w.objs.items()))
    return hashlib.sha1(place.whole(w.B) + place.whole(w.F) + repr((m, vals, sorted(w.B.live.items()))).encode()).digest()


def hist_repr(v):
    from .hist import sorted_repr

    return sorted_repr(v)


def step_and_check(w, ev, n, res):
    log0 = len(w.B.log)
    try:
        with common.Watchdog(30):
            created = apply(w, ev, n)
    except Exception as e:
        return [("C08.accepts", "event-raises:" + ev[0] + ":" + common.exc_failure(e), repr(e))]
    ev_allocs = {e[1] for e in w.B.log[log0:] if e[0] == "alloc"}
    return check(w, created, res, ev_allocs)


def run_shard(shard, tier, seed):
    hname, first = shard
    res = common.ShardResult()
    if hname.endswith("@named"):
        xt.DECL[0] = "named-subclass"  # this process only
    if hname == "declared-default":
        run_defaults(first, tier, res)
        return res
    depth = 4 if tier == "quick" else 5
    if len(HOLDERS[hname.split("@")[0]][1]) > 1:
        depth -= 1
    feats = dict(holder=hname)
    seen = set()
    if first == 0:
        w0 = build(hname, [], seed)
        probs = check(w0, [], res, set())
        res.cases += 1
        for o, f, d in probs:
            res.violations.append(common.violation(o, f, dict(feats, event="initial", depth=0), dict(holder=hname, hist_idx=[], ev_idx=None), d))
        seen.add(canon(w0))
    frontier = [([], [])]
    sigs = set()
    for d in range(depth):
        nf = []
        for hist, hidx in frontier:
            wb = build(hname, hist, seed)
            evs = events(wb)
            for ei, ev in enumerate(evs):
                if d == 0 and ei != first:
                    continue
                w = build(hname, hist, seed)
                probs = step_and_check(w, ev, len(hist), res)
                res.transitions += 1
                res.events[ev[0]] += 1
                if probs:
                    for o, f, dt in probs:
                        res.outcomes[f.split(":")[0]] += 1
                        if (o, f) in sigs:
                            continue
                        sigs.add((o, f))
                        res.violations.append(common.violation(o, f, dict(feats, event=ev[0], depth=d + 1), dict(holder=hname, hist_idx=hidx, ev_idx=ei, history=[list(map(repr, e)) for e in hist], event=list(map(repr, ev))), dt))
                    continue
                res.outcomes["ok:" + ev[0]] += 1
                k = canon(w)
                if k not in seen:
                    seen.add(k)
                    nf.append((hist + [ev], hidx + [ei]))
        res.max_depth = d + 1
        frontier = nf
    res.states = res.nontrivial = len(seen)
    if first == 0:
        res.sample(dict(holder=hname, type=xt.show(HOLDERS[hname.split("@")[0]][0]), depth=depth, states_below_first_event=len(seen)))
    return res


def replay(case):
    if case.get("part") == "defaults":
        try:
            r = d_check(d_build(case["variant"], case["init"], case["history"]))
        except Exception as e:
            r = ("C08.accepts", "event-raises:" + common.exc_failure(e), repr(e))
        return [r] if r else []
    hname = case["holder"]
    if hname.endswith("@named"):
        xt.DECL[0] = "named-subclass"
    hist = []
    for i in case["hist_idx"]:
        wb = build(hname, hist, 0)
        hist.append(events(wb)[i])
    res = common.ShardResult()
    if case["ev_idx"] is None:
        return check(build(hname, [], 0), [], res, set())
    wb = build(hname, hist, 0)
    ev = events(wb)[case["ev_idx"]]
    w = build(hname, hist, 0)
    return step_and_check(w, ev, len(hist), res)


# --------------------------------------------------------------------------
# reference fields DECLARED WITH A DEFAULT: a null is a value of its own, not "no value given"


def defaults_classes(variant):
    import xobjects as xo

    key = ("dflt", variant)
    if key not in _dcls:
        Pd = type("C08Pd", (xo.Struct,), {"a": xo.Int64, "b": xo.Float64})
        DAd = xo.Float64[:]
        Ud = type("C08Ud", (xo.UnionRef,), {"_reftypes": [Pd, DAd]})
        if variant == "default":  # reference to an array with a list as default; union with a (name, data) default
            fr = xo.Field(xo.Ref[DAd], default=[7.0, 1.5])
            fu = xo.Field(Ud, default=("C08Pd", {"a": 9, "b": 3.5}))
        else:  # reference to a struct with a factory making an object; union with a factory
            fr = xo.Field(xo.Ref[Pd], default_factory=lambda: Pd(a=7, b=1.5))
            fu = xo.Field(Ud, default_factory=lambda: ("C08Pd", {"a": 9, "b": 3.5}))
        Hd = type("C08Hd_" + variant, (xo.Struct,), {"r": fr, "u": fu, "k": xo.Int64})
        Od = type("C08Od_" + variant, (xo.Struct,), {"h": Hd, "z": xo.Int64})
        _dcls[key] = (Pd, Ud, Hd, Od)
    return _dcls[key]


_dcls = {}
D_DEFAULT = {"r": {"a": 7, "b": 1.5}, "u": {"a": 9, "b": 3.5}}
D_INIT = ["omitted", "nulls", "values", "r-null", "u-null"]
D_EVENTS = ["set-r-none", "set-u-none", "set-r-value", "set-u-value", "copy-same", "copy-other", "copy-ctx", "embed", "array-item", "embed-dict-none"]


def d_arg(variant, m):
    """the value for field r: a list for the array reference of variant 'default', a dictionary for the struct reference"""
    return [float(m["a"]), m["b"]] if variant == "default" else dict(m)


def d_build(variant, init, hist):
    """objects = [(handle, model)], the last one is the current object"""
    import xobjects as xo

    Pd, Ud, Hd, Od = defaults_classes(variant)
    B = place.traced("np", 0)
    kw = dict(k=5, _buffer=B)
    m = {"r": dict(D_DEFAULT["r"]), "u": dict(D_DEFAULT["u"])}
    if init in ("nulls", "r-null"):
        kw["r"] = None
        m["r"] = None
    if init in ("nulls", "u-null"):
        kw["u"] = None
        m["u"] = None
    if init == "values":
        kw["r"] = d_arg(variant, {"a": 1, "b": 0.5})
        kw["u"] = ("C08Pd", {"a": 2, "b": 0.25})
        m = {"r": {"a": 1, "b": 0.5}, "u": {"a": 2, "b": 0.25}}
    objs = [(Hd(**kw), m)]
    for n, ev in enumerate(hist):
        h, m = objs[-1]
        m = {k: (dict(v) if v else None) for k, v in m.items()}
        if ev == "set-r-none":
            h.r = None
            objs[-1][1]["r"] = None
        elif ev == "set-u-none":
            h.u = None
            objs[-1][1]["u"] = None
        elif ev == "set-r-value":
            h.r = d_arg(variant, {"a": 20 + n, "b": 4.5})
            objs[-1][1]["r"] = {"a": 20 + n, "b": 4.5}
        elif ev == "set-u-value":
            h.u = ("C08Pd", {"a": 30 + n, "b": 5.5})
            objs[-1][1]["u"] = {"a": 30 + n, "b": 5.5}
        elif ev == "copy-same":
            objs.append((Hd(h, _buffer=B), m))
        elif ev == "copy-other":
            objs.append((Hd(h, _buffer=place.traced("np", 0)), m))
        elif ev == "copy-ctx":
            objs.append((Hd(h, _context=place.ctx(1)), m))
        elif ev == "embed":
            objs.append((Od(h=h, z=1, _buffer=B).h, m))
        elif ev == "embed-dict-none":
            o = Od(h={"r": None, "u": None, "k": 3}, z=1, _buffer=B)
            objs.append((o.h, {"r": None, "u": None}))
        elif ev == "array-item":
            arr = Hd[2]([h, h], _buffer=B)
            objs.append((arr[1], m))
        else:
            raise ValueError(ev)
    return objs


def d_check(objs):
    for i, (h, m) in enumerate(objs):
        for f in ("r", "u"):
            got = getattr(h, f)
            if m[f] is None:
                if got is not None:
                    return ("C08.null", "null-reference-resolves", "object %d: field %s must be null, reads %r" % (i, f, got))
            else:
                if got is None:
                    return ("C08.alias", "bound-reference-is-null", "object %d: field %s is null, model %r" % (i, f, m[f]))
                val = (int(got.a), float(got.b)) if hasattr(got, "a") else (int(got[0]), float(got[1]))
                if val != (m[f]["a"], m[f]["b"]):
                    return ("C08.alias", "referent-value", "object %d: field %s reads %r, model %r" % (i, f, val, m[f]))
    return None


def run_defaults(variant, tier, res):
    depth = 2 if tier == "quick" else 3
    sig = set()
    for init in D_INIT:
        frontier, seen = [[]], set()
        for d in range(depth + 1):
            nf = []
            for hist in frontier:
                res.transitions += 1
                res.events["default-" + (hist[-1] if hist else "construct")] += 1
                feat = dict(holder="declared-default:" + variant, init=init, event=hist[-1] if hist else "construct", depth=len(hist))
                case = dict(part="defaults", variant=variant, init=init, history=list(hist))
                try:
                    objs = d_build(variant, init, hist)
                    r = d_check(objs)
                except Exception as e:
                    r = ("C08.accepts", "event-raises:" + common.exc_failure(e), repr(e))
                if r:
                    res.outcomes["bad:" + r[1].split(":")[0]] += 1
                    if (r[0], r[1], feat["event"]) not in sig:
                        sig.add((r[0], r[1], feat["event"]))
                        res.violations.append(common.violation(r[0], r[1], feat, case, r[2]))
                    continue
                res.outcomes["ok:declared-default"] += 1
                k = repr([m for _, m in objs])
                if k in seen:
                    continue
                seen.add(k)
                res.states += 1
                if d < depth:
                    nf += [hist + [ev] for ev in D_EVENTS]
            frontier = nf
    res.cases += len(D_INIT)
    res.nontrivial = res.states
    res.max_depth = max(res.max_depth, depth)
