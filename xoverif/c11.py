"""C11: operations that cannot be honoured fail without side effects (DESIGN.md 2/C11)."""
import numpy as np

from . import common, cons, hand, hist, place, universe, xt

PID = "C11"


def describe(tier):
    return dict(
        rule="history system: from every validated object of the history sub-universe (live poisoned neighbours flush on both sides; in the thorough tier "
        "also from every state one legal assignment later), every misuse of the property's list at every element position: index tuples with a "
        "component in {-1, dim, dim+1} (read and write), index tuples with one entry more than the array has dimensions, a sequence (list of 2, ndarray of 3) assigned where one number is expected, whole-array update of other length / other shape with equal item count, string longer than "
        "the space fixed at creation (by 1 byte, a slot, many; multi-byte text that fits in characters but not in bytes), same-length list with one larger dynamic item (first item; last item in memory order with the earlier ones replaced / shrunk so that the total does not grow), whole-struct dictionary whose last dynamic part is too large while earlier fields change, xobject of the same class and the same TOTAL size whose room is split differently between two dynamic fields (one part a slot larger than the space fixed at its creation), non-member value for a union reference (alone, and - as foreign object, unknown (name, data) pair or 1-tuple - inside a whole-struct / whole-array update whose other entries change), integer update naming another length (and, for n-D arrays, the item count); "
        "plus constructor misuse on the whole universe (_buffer of another context together with _context; _offset without _buffer). "
        "Oracle: an exception is raised and victim + neighbours read back unchanged.",
        bounds=dict(history_types=len(universe.rh(tier)), legal_prefix_depth=0 if tier == "quick" else 1),
        assumptions=["only the misuse classes named by the property are demanded to raise"],
        must_fire=["x-index", "x-len", "x-str", "x-items", "x-struct", "x-struct-xobj", "x-struct-resplit", "x-resplit", "x-scalar-seq", "x-scalar-seq-in", "x-union", "x-union-in", "x-ctx", "x-offset"],
    )


def shards(tier, seed):
    vm = ["ramp", "long"] if tier == "quick" else ["ramp", "long", "extreme"]
    out = [("hist", t, v, p) for t in universe.rh(tier) for v in vm for p in ("dirtyhole", "dirtyhole2")]
    out += [("ctor", c) for c in cons.chunk(universe.universe(tier), 16)]
    return out[seed % len(out):] + out[: seed % len(out)]


def nodes(t, v, path=()):
    yield path, t, v
    k = t[0]
    if k == "St":
        for n, ft in t[1]:
            yield from nodes(ft, v[n], path + (n,))
    elif k == "A":
        for idx, iv in v["items"].items():
            yield from nodes(t[1], iv, path + (idx,))
    elif k == "R" and v is not None:
        yield from nodes(t[1], v, path + ("*",))
    elif k == "U" and v is not None:
        yield from nodes(t[1][v[0]], v[1], path + ("#",))


_ROOMS = {}  # absolute path of a string -> room fixed at its creation (set from the state before a menu / a misuse is built)


def grow_value(t, v, path=()):
    """a value of the same shape whose dynamic parts need more room than was fixed at creation (None if the type has none);
    `path` is the absolute path of v: the room of a string is the one recorded when it was created, not the one its
    current text would get"""
    k = t[0]
    if k == "Str":
        room = _ROOMS.get(tuple(path), hist.string_room(v))
        return v + "X" * (room - len(v.encode("utf8")) + 9)
    if k == "S":
        return None
    if k == "St":
        for n, ft in t[1]:
            g = grow_value(ft, v[n], tuple(path) + (n,))
            if g is not None:
                d = dict(v)
                d[n] = g
                return d
        return None
    if k == "A":
        if any(d is None for d in t[2]):
            # a longer inner array
            ax = [i for i, d in enumerate(t[2]) if d is None][0]
            shape = list(v["shape"])
            shape[ax] += 2
            items = {}
            proto = next(iter(v["items"].values())) if v["items"] else xt.gen(t[1], "ramp")
            for idx in np.ndindex(*shape):
                items[idx] = v["items"].get(idx, proto)
            return {"shape": tuple(shape), "items": items}
        for idx, iv in v["items"].items():
            g = grow_value(t[1], iv, tuple(path) + (idx,))
            if g is not None:
                items = dict(v["items"])
                items[idx] = g
                return {"shape": v["shape"], "items": items}
        return None
    return None


def rooms_full(t, v, path):
    """every string directly inside (t, v) fills the slot count of the room fixed at its creation (so that sizes computed from
    the current texts are the sizes in the buffer)"""
    return all(hist.string_room(lv) == _ROOMS.get(tuple(path) + tuple(lp), hist.string_room(lv)) for lp, lt, lv in xt.leaf_paths(t, v) if lt[0] == "Str" and not any(q in ("*", "#") for q in lp))


def resplit_value(t, v):
    """a value of struct type t with the same total size whose room is split differently between two dynamic fields:
    one string / 1-D scalar array grows by exactly one slot, another shrinks by exactly one slot (None if impossible)"""
    if t[0] != "St":
        return None

    def delta(ft, fv, sign):
        if ft[0] == "Str":
            if sign > 0:
                return fv + "G" * 8
            return fv[:-8] if fv.isascii() and len(fv) >= 8 else None
        if ft[0] == "A" and len(ft[2]) == 1 and ft[2][0] is None and ft[1][0] == "S":
            k = 8 // np.dtype(xt.NPDT[ft[1][1]]).itemsize
            n = fv["shape"][0]
            if sign > 0:
                proto = fv["items"][(0,)] if n else xt.gen(ft[1], "ramp")
                items = dict(fv["items"])
                for i in range(n, n + k):
                    items[(i,)] = proto
                return {"shape": (n + k,), "items": items}
            if n < k:
                return None
            return {"shape": (n - k,), "items": {(i,): fv["items"][(i,)] for i in range(n - k)}}
        return None

    for gn, gt in t[1]:
        g = delta(gt, v[gn], +1)
        if g is None:
            continue
        for sn, st in t[1]:
            if sn == gn:
                continue
            sh = delta(st, v[sn], -1)
            if sh is not None:
                d = dict(v)
                d[gn], d[sn] = g, sh
                return d
    return None


def _delta(ft, fv, sign):
    """string / 1-D dynamic scalar array one slot longer (sign > 0) or shorter (None if impossible)"""
    if ft[0] == "Str":
        if sign > 0:
            return fv + "G" * 8
        return fv[:-8] if fv.isascii() and len(fv) >= 8 else None
    if ft[0] == "A" and len(ft[2]) == 1 and ft[2][0] is None and ft[1][0] == "S":
        k = 8 // np.dtype(xt.NPDT[ft[1][1]]).itemsize
        n = fv["shape"][0]
        if sign > 0:
            proto = fv["items"][(0,)] if n else xt.gen(ft[1], "ramp")
            items = dict(fv["items"])
            for i in range(n, n + k):
                items[(i,)] = proto
            return {"shape": (n + k,), "items": items}
        if n < k:
            return None
        return {"shape": (n - k,), "items": {(i,): fv["items"][(i,)] for i in range(n - k)}}
    return None


def resplit_array(t, v):
    """array of dynamically sized items (strings / 1-D dynamic scalar arrays): one item a slot longer, another a slot shorter"""
    if t[0] != "A" or not xt.is_dyn(t[1]) or t[1][0] not in ("Str", "A"):
        return None
    idxs = list(v["items"])
    for gi in idxs:
        g = _delta(t[1], v["items"][gi], +1)
        if g is None:
            continue
        for si in idxs:
            if si == gi:
                continue
            sh = _delta(t[1], v["items"][si], -1)
            if sh is not None:
                items = dict(v["items"])
                items[gi], items[si] = g, sh
                return {"shape": v["shape"], "items": items}
    return None


def resplit_deep(t, v):
    """same total size and the same split at the TOP level, another split strictly inside one nested (by value) part"""
    if t[0] == "St":
        for n, ft in t[1]:
            if ft[0] in ("St", "A"):
                r = resplit_value(ft, v[n]) if ft[0] == "St" else resplit_array(ft, v[n])
                if r is None:
                    r = resplit_deep(ft, v[n])
                if r is not None:
                    d = dict(v)
                    d[n] = r
                    return d
    elif t[0] == "A" and t[1][0] in ("St", "A"):
        for idx, iv in v["items"].items():
            r = resplit_value(t[1], iv) if t[1][0] == "St" else resplit_array(t[1], iv)
            if r is None:
                r = resplit_deep(t[1], iv)
            if r is not None:
                items = dict(v["items"])
                items[idx] = r
                return {"shape": v["shape"], "items": items}
    return None


def shrink_value(t, v):
    """a smaller value of the same shape (strings emptied)"""
    k = t[0]
    if k == "Str":
        return ""
    if k == "St":
        return {n: shrink_value(ft, v[n]) for n, ft in t[1]}
    if k == "A":
        return {"shape": v["shape"], "items": {i: shrink_value(t[1], x) for i, x in v["items"].items()}}
    return v


def union_paths(t, v, path=()):
    """paths (relative, never through a reference) of the union references held by value inside (t, v)"""
    k = t[0]
    if k == "U":
        yield path
    elif k == "St":
        for n, ft in t[1]:
            yield from union_paths(ft, v[n], path + (n,))
    elif k == "A":
        for idx in xt.mem_indices(v["shape"], t[3]):
            yield from union_paths(t[1], v["items"][idx], path + (idx,))


def alt_everywhere(t, v, n=0):
    """same layout, other leaf values wherever no reference is involved"""
    k = t[0]
    if k in ("R", "U"):
        return v
    if k == "St":
        return {nm: alt_everywhere(ft, v[nm], n + i) for i, (nm, ft) in enumerate(t[1])}
    if k == "A":
        return {"shape": v["shape"], "items": {idx: alt_everywhere(t[1], iv, n + j) for j, (idx, iv) in enumerate(v["items"].items())}}
    return hist.same_size_alt(t, v, n)


def py_put(arg, rp, value):
    """replace the entry at relative path rp of the plain-python form"""
    for p in rp[:-1]:
        if isinstance(p, tuple):
            for i in p:
                arg = arg[i]
        else:
            arg = arg[p]
    p = rp[-1]
    if isinstance(p, tuple):
        for i in p[:-1]:
            arg = arg[i]
        arg[p[-1]] = value
    else:
        arg[p] = value


def non_member(buf):
    """an object of a struct class that is no member of the union under test, but IS a member of another union of this
    process, through which one instance has already been stored (membership is per union)"""
    import xobjects as xo

    class NotAMember(xo.Struct):
        q = xo.Int64

    class ElsewhereU(xo.UnionRef):
        _reftypes = (NotAMember,)

    ElsewhereU(NotAMember(q=7))
    ElsewhereU("NotAMember", {"q": 8})
    return NotAMember(q=1, _buffer=buf)


def misuse_menu(s, opts, d):
    if d < opts.get("prefix", 0):
        o = dict(opts)
        o.update(vals=1, compounds=False, grow=False, vias=("h",))
        return hist.events(s, o, d)
    evs = []
    t, mv = s.t, s.mv
    _ROOMS.clear()
    _ROOMS.update(s.rooms)
    seen_arr = seen_sc = 0
    for path, nt, nv in nodes(t, mv):
        if nt[0] == "A":
            seen_arr += 1
            if seen_arr > opts.get("max_arrays", 4):
                continue
            shape = nv["shape"]
            # out-of-range indices: every axis x {-1, dim, dim+1}, other components in range (0)
            for ax in range(len(shape)):
                for bad in (-1, shape[ax], shape[ax] + 1):
                    idx = [0] * len(shape)
                    idx[ax] = bad
                    if any(sh == 0 for i, sh in enumerate(shape) if i != ax):
                        continue
                    for via in ("h", "v"):
                        evs.append(("x-index", via, path, tuple(idx), "get"))
                        evs.append(("x-index", via, path, tuple(idx), "set"))
            # more index entries than dimensions (the extra entry in range of nothing / zero)
            if all(sh > 0 for sh in shape):
                for extra in (0, 5):
                    for mode in ("get", "set"):
                        evs.append(("x-index", "h", path, tuple([0] * len(shape)) + (extra,), mode))
            if nt[1][0] == "S" and len(nv["items"]) > 1 and xt.py_expressible(nt, nv) and (not path or path[-1] not in ("*", "#")):
                # whole-array update from a list whose LAST item (in memory order) is a sequence, the earlier ones new numbers
                evs.append(("x-scalar-seq-in", "h", path))
            if path and path[-1] not in ("*", "#"):  # whole-array updates need a parent holding the array by value
                for via in ("h", "v"):
                    evs.append(("x-len", via, path, "longer"))
                    if shape[0] > 0:
                        evs.append(("x-len", via, path, "shorter"))
                    if len(shape) > 1 and len(set(shape)) > 1 and all(sh > 0 for sh in shape):
                        evs.append(("x-len", via, path, "reshape"))
                    if len(shape) > 1 and shape[0] > 0:
                        # the leading extent is right, another one is not (rows too long / too short)
                        for ax in range(1, len(shape)):
                            evs.append(("x-len", via, path, "ax%d+" % ax))
                            if shape[ax] > 1:
                                evs.append(("x-len", via, path, "ax%d-" % ax))
                    if via == "h" and xt.py_expressible(nt, nv):
                        # the same misfits given as an OBJECT of the very class of the field (another buffer): for items smaller
                        # than a slot, and for extents traded between two dynamic axes, the total size is the field's own
                        if nt[2][0] is None:
                            evs.append(("x-len", via, path, "longer", "xobj"))
                            if shape[0] > 1:
                                evs.append(("x-len", via, path, "shorter", "xobj"))
                        if len(shape) > 1 and len(set(shape)) > 1 and all(sh > 0 for sh in shape) and all(d is None for d in nt[2]):
                            evs.append(("x-len", via, path, "reshape", "xobj"))
                            evs.append(("x-len", via, path, "swap", "xobj"))
                    if not xt.is_dyn(nt[1]) and nt[2][0] is None and all(d is not None for d in nt[2][1:]):
                        # the integer form of an update ("keep the length"): any other integer is another length
                        evs.append(("x-len", via, path, "int-longer"))
                        if len(shape) > 1 and int(np.prod(shape)) != shape[0]:
                            evs.append(("x-len", via, path, "int-total"))
                    if xt.is_dyn(nt[1]) and nv["items"] and grow_value(nt[1], next(iter(nv["items"].values())), tuple(path) + (next(iter(nv["items"])),)) is not None:
                        evs.append(("x-items", via, path, "first"))
                        if via == "h" and xt.py_expressible(nt, nv):
                            evs.append(("x-items", via, path, "first", "nd-object"))
                        if len(nv["items"]) > 1:
                            evs.append(("x-items", via, path, "last-alt"))
                            if via == "h" and xt.py_expressible(nt, nv):
                                evs.append(("x-items", via, path, "last-alt", "nd-object"))
                            if any(st[0] == "Str" for st in xt.subtypes(nt[1])):
                                evs.append(("x-items", via, path, "last-shrink"))
        if nt[0] in ("St", "A") and (not path or path[-1] not in ("*", "#")) and seen_arr <= opts.get("max_arrays", 4):
            # a non-member for a union reference held (by value) somewhere inside a compound that is updated as a whole
            inner = [rp for rp in union_paths(nt, nv) if rp]
            for rp in inner[:1] + inner[-1:] if len(inner) > 1 else inner:
                for form in ("foreign-object", "unknown-name", "one-tuple"):
                    evs.append(("x-union-in", "h", path, rp, form))
        if nt[0] == "St" and (not path or path[-1] not in ("*", "#")) and rooms_full(nt, nv, path) and resplit_value(nt, nv) is not None:
            # same total size, other split between two dynamic fields, given as an xobject: every part keeps the room fixed at
            # its creation, so this is a misfit exactly as the same value given as a dictionary is
            for src in ("other", "same"):
                evs.append(("x-struct-resplit", "h", path, src))
        if nt[0] in ("St", "A") and (not path or path[-1] not in ("*", "#")) and not xt.has_refs(nt) and rooms_full(nt, nv, path):
            # the same with the other split strictly INSIDE a nested part (the top level is split as before), and for arrays
            # of dynamically sized items: one item a slot longer, another one a slot shorter
            if resplit_deep(nt, nv) is not None:
                evs.append(("x-resplit", "h", path, "deep"))
            if resplit_array(nt, nv) is not None:
                evs.append(("x-resplit", "h", path, "items"))
                evs.append(("x-resplit", "v", path, "items"))
        if nt[0] == "St" and path and path[-1] not in ("*", "#") and len(nt[1]) > 1 and xt.is_dyn(nt) and grow_value(nt, nv, path) is not None:
            for via in ("h", "v"):
                evs.append(("x-struct", via, path))
            evs.append(("x-struct-xobj", "h", path))
        elif nt[0] == "S" and path and path[-1] not in ("*", "#"):
            seen_sc += 1
            if seen_sc <= opts.get("max_scalars", 6):
                # a sequence where one number is expected: larger than the slot of the scalar
                for form in ("list2", "nd3"):
                    evs.append(("x-scalar-seq", "h", path, form))
        elif nt[0] == "Str" and path:
            for extra in (1, 8, 64, "mb", "mb4"):
                for via in ("h", "v"):
                    evs.append(("x-str", via, path, extra))
        elif nt[0] == "U" and path:
            for kind in ("foreign-object", "one-tuple", "member-name-elsewhere", "unknown-name", "plain-number"):
                evs.append(("x-union", "h", path, kind))
    return evs


def apply_misuse(s, ev):
    """perform the misuse; returns normally if the library accepted it"""
    import xobjects as xo

    kind, via, path = ev[0], ev[1], ev[2]
    _ROOMS.clear()
    _ROOMS.update(s.rooms)
    rt, rh = s.t, (s.h if via == "h" else hist.view_of(s))
    if via == "v" and s.t[0] == "U":
        names = xt.member_names(s.t)
        rt = s.t[1][names.index(type(rh).__name__)]
        path = path[1:]
    if kind == "x-index":
        at, ah = hand.nav(rt, rh, path)
        if at[0] == "U" and hasattr(ah, "get"):
            ah = ah.get()
        idx = ev[3]
        key = idx if len(idx) > 1 else idx[0]
        if ev[4] == "get":
            ah[key]
        else:
            it = at[1] if at[0] == "A" else None
            nt, nv = hist.type_at(s.t, s.mv, ev[2])
            proto = next(iter(nv["items"].values())) if nv["items"] else xt.gen(nt[1], "ramp")
            ah[key] = xt.to_py(nt[1], proto) if nt[1][0] not in ("R", "U") else None
        return
    nt, nv = hist.type_at(s.t, s.mv, ev[2])
    if kind == "x-len":
        shape = list(nv["shape"])
        proto = next(iter(nv["items"].values())) if nv["items"] else xt.gen(nt[1], "ramp")
        if ev[3] in ("int-longer", "int-total"):
            hand.assign(rt, rh, path, int(shape[0] + 1 if ev[3] == "int-longer" else np.prod(shape)))
            return
        if ev[3] == "longer":
            shape[0] += 1
        elif ev[3] == "shorter":
            shape[0] -= 1
        elif ev[3].startswith("ax"):
            shape[int(ev[3][2:-1])] += 1 if ev[3].endswith("+") else -1
        elif ev[3] == "swap":
            shape[0], shape[1] = shape[1], shape[0]
        else:
            flat = int(np.prod(shape))
            shape = [flat] + [1] * (len(shape) - 1)
        items = {idx: nv["items"].get(idx, proto) for idx in np.ndindex(*shape)}
        val = {"shape": tuple(shape), "items": items}
        ft = ("A", nt[1], tuple(None for _ in shape), nt[3])
        arg = xt.to_nd(ft, val, "nd") if nt[1][0] == "S" and not xt.py_expressible(ft, val) else xt.to_py(ft, val)
        if len(ev) > 4 and ev[4] == "xobj":
            _, ch = hand.nav(rt, rh, path)
            arg = type(ch)(arg, _buffer=place.traced("np", 0))  # (the class object of the field itself)
            assert tuple(arg._shape) == tuple(shape) != tuple(nv["shape"])
        hand.assign(rt, rh, path, arg)
    elif kind == "x-str":
        room = s.rooms[ev[2]]
        if ev[3] == "mb":  # fits when counted in characters, too long in UTF-8 bytes
            val = "é" * (room // 2 + 1)
        elif ev[3] == "mb4":
            val = "\U0001f600" * (room // 4 + 1)
        else:
            val = "L" * (room + ev[3])
        assert len(val.encode("utf8")) > room
        hand.assign(rt, rh, path, val)
    elif kind == "x-scalar-seq":
        dt = xt.NPDT[nt[1]]
        arg = [nv, nv] if ev[3] == "list2" else np.array([nv, nv, nv], dtype=dt)
        hand.assign(rt, rh, path, arg)
    elif kind == "x-scalar-seq-in":
        alt = alt_everywhere(nt, nv)
        arg = xt.to_py(nt, alt)
        last = list(xt.mem_indices(nv["shape"], nt[3]))[-1]
        py_put(arg, (last,), [alt["items"][last], alt["items"][last]])
        if path:
            hand.assign(rt, rh, path, arg)
        else:
            rh._update(arg)
    elif kind == "x-items":
        variant = ev[3]
        items = dict(nv["items"])
        order = list(xt.mem_indices(nv["shape"], nt[3]))
        if variant == "first":
            k = next(iter(items))
            items[k] = grow_value(nt[1], items[k], tuple(ev[2]) + (k,))
        else:
            last = order[-1]
            for j, k in enumerate(order[:-1]):
                items[k] = hist.same_size_alt(nt[1], items[k], j) if variant == "last-alt" else shrink_value(nt[1], items[k])
            items[last] = grow_value(nt[1], items[last], tuple(ev[2]) + (last,))
        g = {"shape": nv["shape"], "items": items}
        arg = xt.to_py(nt, g)
        if len(ev) > 4 and ev[4] == "nd-object":
            # the same items in a NumPy array of python objects of the array's shape (a source that has a dtype)
            a = np.empty(tuple(nv["shape"]), dtype=object)
            for idx in np.ndindex(*nv["shape"]):
                a[idx] = xt.to_py(nt[1], items[idx])
            arg = a
        hand.assign(rt, rh, path, arg)
    elif kind == "x-struct":
        # every field before the last growable one gets another (fitting) value, the last growable part is too large
        d = {}
        names = [n for n, ft in nt[1]]
        growable = [n for n, ft in nt[1] if grow_value(ft, nv[n], tuple(ev[2]) + (n,)) is not None]
        for j, (n, ft) in enumerate(nt[1]):
            if n == growable[-1]:
                d[n] = grow_value(ft, nv[n], tuple(ev[2]) + (n,))
            else:
                d[n] = hist.same_size_alt(ft, nv[n], j) if not xt.has_refs(ft) else nv[n]
        hand.assign(rt, rh, path, xt.to_py(nt, d))
    elif kind == "x-struct-resplit":
        g = resplit_value(nt, nv)
        src = xt.construct(nt, xt.to_py(nt, g), _buffer=place.traced("np", 0) if ev[3] == "other" else s.h._buffer)
        assert hand.size_of(src) == xt.layout_size(nt, nv), "resplit value must have the size of the element"
        if path:
            hand.assign(rt, rh, path, src)
        else:
            rh._update(src)
    elif kind == "x-resplit":
        g = resplit_deep(nt, nv) if ev[3] == "deep" else resplit_array(nt, nv)
        src = xt.construct(nt, xt.to_py(nt, g), _buffer=place.traced("np", 0))
        assert hand.size_of(src) == xt.layout_size(nt, nv), "resplit value must have the size of the element"
        if path:
            hand.assign(rt, rh, path, src)
        else:
            rh._update(src)
    elif kind == "x-struct-xobj":
        # an xobject of the same class whose dynamic parts are larger than the space of the element
        g = grow_value(nt, nv, tuple(ev[2]))
        src = xt.construct(nt, xt.to_py(nt, g), _buffer=place.traced("np", 0))
        hand.assign(rt, rh, path, src)
    elif kind == "x-union-in":
        rp, form = ev[3], ev[4]

        if form == "foreign-object":
            bad = non_member(s.h._buffer)
        elif form == "unknown-name":
            bad = ("NoSuchType", {"q": 1})
        else:
            bad = (non_member(s.h._buffer),)
        arg = xt.to_py(nt, alt_everywhere(nt, nv))
        py_put(arg, rp, bad)
        if path:
            hand.assign(rt, rh, path, arg)
        else:
            (rh.get() if rt[0] == "U" and hasattr(rh, "get") else rh)._update(arg)
    elif kind == "x-union":
        if ev[3] == "foreign-object":
            arg = non_member(s.h._buffer)
        elif ev[3] == "one-tuple":
            arg = (non_member(s.h._buffer),)
        elif ev[3] == "member-name-elsewhere":
            non_member(s.h._buffer)
            arg = ("NotAMember", {"q": 1})
        elif ev[3] == "unknown-name":
            arg = ("NoSuchType", {"q": 1})
        else:
            arg = 3.5
        hand.assign(rt, rh, path, arg)
    else:
        raise ValueError(ev)


def judge(s, ev, res):
    if not ev[0].startswith("x-"):
        try:
            hist.apply_event(s, ev)
            return [], xt.veq(xt.read(s.t, s.h), s.mv)
        except Exception as e:
            res.skipped["legal-prefix-failed(C10's business):" + common.exc_failure(e)] += 1
            return [], False
    before = place.whole(s.h._buffer)
    raised = None
    try:
        with common.Watchdog(30):
            apply_misuse(s, ev)
    except common.Watchdog.Expired:
        return [common.violation("C11.refused", "misuse-hangs", {}, {}, "")], False
    except Exception as e:
        raised = e
    feat = dict(misuse=ev[0], detail=(ev[3] if ev[0] != "x-union-in" else ev[4]) if len(ev) > 3 else None, mode=ev[4] if len(ev) > 4 else None)
    if raised is None:
        res.outcomes["accepted:" + ev[0]] += 1
        after = place.whole(s.h._buffer)
        changed = before != after
        v = common.violation("C11.refused", "accepted-silently:" + ev[0], {}, {}, "%r did not raise (buffer bytes %s)" % (common.jsonable(list(ev)), "changed" if changed else "unchanged"))
        v["extra_features"] = feat
        return [v], False
    res.oracles["raised"] += 1
    # no side effects: victim and neighbours unchanged
    try:
        with common.Watchdog(30):
            got = xt.read(s.t, s.h)
    except BaseException as e:
        v = common.violation("C11.no-side-effect", "victim-unreadable-after-refusal:" + type(e).__name__, {}, {}, repr(e))
        v["extra_features"] = feat
        return [v], False
    res.oracles["unchanged"] += 1
    if not xt.veq(got, s.mv):
        res.outcomes["side-effect:" + ev[0]] += 1
        v = common.violation("C11.no-side-effect", "victim-changed:" + ev[0], {}, {}, "raised %r but value changed; first difference at %r: %s" % ((raised,) + xt.vdiff(got, s.mv)))
        v["extra_features"] = feat
        return [v], False
    nb = place.check_neighbours(s.pl, s.h._buffer)
    if nb:
        v = common.violation("C11.no-side-effect", "neighbour-changed:" + ev[0], {}, {}, repr(nb))
        v["extra_features"] = feat
        return [v], False
    res.outcomes["refused-cleanly:" + ev[0]] += 1
    return [], False


def ctor_misuse(types, res, seed):
    """constructor-level misuse on every type: foreign-context buffer with _context, _offset without _buffer"""
    for t in types:
        v = xt.gen(t, "ramp")
        if not xt.py_expressible(t, v):
            continue
        arg = xt.to_py(t, v)
        size = xt.layout_size(t, v)
        # (a) buffer of another context + explicit context
        other = place.traced("np", 13 + size + 64, context=place.ctx(1), default_alignment=1)
        a = other.allocate(13)
        pa = place.poison(13, seed)
        other.update_from_buffer(a, pa)
        before = place.whole(other)
        free0, cap0, log0 = other.get_free(), other.capacity, len(other.log)
        for name, kw in (("x-ctx", dict(_buffer=other, _context=place.ctx(0))), ("x-offset", dict(_offset=8)), ("x-offset", dict(_offset=8, _context=place.ctx(0))),
                         # the foreign buffer together with every way of saying where in it
                         ("x-ctx", dict(_buffer=other, _context=place.ctx(0), _offset=16)), ("x-ctx", dict(_buffer=other, _context=place.ctx(0), _offset=np.int64(16))),
                         ("x-ctx", dict(_buffer=other, _context=place.ctx(0), _offset=0)), ("x-ctx", dict(_buffer=other, _context=place.ctx(0), _offset="packed")),
                         ("x-ctx", dict(_buffer=other, _context=place.ctx(0), _offset="aligned"))):
            res.cases += 1
            res.transitions += 1
            res.events[name] += 1
            cid = dict(type=t, type_str=xt.show(t), misuse=name, kwargs=sorted(kw))
            f = cons.feats(t, "ramp", "py", name)
            f["misuse"] = name
            try:
                xt.construct(t, arg, **kw)
            except Exception as e:
                res.oracles["raised"] += 1
                if place.whole(other) != before or other.get_free() != free0 or other.capacity != cap0 or len(other.log) != log0:
                    res.violations.append(common.violation("C11.no-side-effect", "buffer-touched-by-refused-constructor:" + name, f, cid, "bytes/allocator state of the foreign buffer changed"))
                else:
                    res.outcomes["refused-cleanly:" + name] += 1
                continue
            res.outcomes["accepted:" + name] += 1
            res.violations.append(common.violation("C11.refused", "accepted-silently:" + name, f, cid, "constructor with %r did not raise" % sorted(kw)))
        # (c) an explicit offset that does not lie inside the buffer it is given with (negative: numpy would count from the
        # end; running past the capacity): refused before anything is written
        own = place.traced("np", 13 + size + 64, default_alignment=1)
        own.update_from_buffer(own.allocate(13), place.poison(13, seed + 2))
        lv = own.allocate(size + 32)
        own.update_from_buffer(lv, place.poison(size + 32, seed + 3))
        before = place.whole(own)
        free0, cap0, log0 = own.get_free(), own.capacity, len(own.log)
        outside = [dict(_buffer=own, _offset=-16), dict(_buffer=own, _offset=-size - 8), dict(_buffer=own, _offset=own.capacity + 8)]
        if size >= 8:
            outside.append(dict(_buffer=own, _offset=own.capacity - size + 8))
        for kw in outside:
            res.cases += 1
            res.transitions += 1
            res.events["x-offset"] += 1
            cid = dict(type=t, type_str=xt.show(t), misuse="x-offset-outside", offset=int(kw["_offset"]), capacity=int(own.capacity))
            f = cons.feats(t, "ramp", "py", "x-offset-outside")
            f["misuse"] = "x-offset-outside"
            f["offset_side"] = "negative" if kw["_offset"] < 0 else "past-capacity"
            try:
                xt.construct(t, arg, **kw)
            except Exception as e:
                res.oracles["raised"] += 1
                if place.whole(own) != before or own.get_free() != free0 or own.capacity != cap0 or len(own.log) != log0:
                    res.violations.append(common.violation("C11.no-side-effect", "buffer-touched-by-refused-constructor:x-offset-outside", f, cid, "offset %d of a buffer of %d bytes: refused after bytes / allocator state changed" % (kw["_offset"], own.capacity)))
                else:
                    res.outcomes["refused-cleanly:x-offset-outside"] += 1
                continue
            res.outcomes["accepted:x-offset-outside"] += 1
            res.violations.append(common.violation("C11.refused", "accepted-silently:x-offset-outside", f, cid, "object of %d bytes accepted at offset %d of a buffer of %d bytes" % (size, kw["_offset"], own.capacity)))
        # (d) a construction at a VALID explicit offset (a region the caller reserved) that is refused while the value is
        # written (a sequence where one number is expected): the region itself is the operation's target, everything else -
        # the bytes around it and the allocator's books - must be as before
        sc = [lp for lp, lt, lv in xt.leaf_paths(t, v) if lt[0] == "S" and lp and not any(q in ("*", "#") for q in lp)]
        if sc and t[0] in ("St", "A") and size > 0 and not xt.has_refs(t):  # (reference-free: the construction allocates nothing else)
            import copy as pycopy

            badarg = pycopy.deepcopy(arg)
            lt_, lv_ = hist.type_at(t, v, sc[-1])
            try:
                py_put(badarg, sc[-1], [xt.to_py(lt_, lv_), xt.to_py(lt_, lv_)])
            except Exception:
                badarg = None
            if badarg is not None:
                for lead in (13, 0):
                    own2 = place.traced("np", lead + size + 64, default_alignment=1)
                    if lead:  # lead 0: the reserved region is the FIRST allocation of the buffer (explicit offset 0)
                        own2.update_from_buffer(own2.allocate(lead), place.poison(lead, seed + 4))
                    reg = own2.allocate(size + 8)
                    own2.update_from_buffer(reg, place.poison(size + 8, seed + 5))
                    before = place.whole(own2)
                    free0, cap0, chunks0 = own2.get_free(), own2.capacity, [(c.start, c.end) for c in own2.chunks]
                    res.cases += 1
                    res.transitions += 1
                    res.events["x-offset"] += 1
                    cid = dict(type=t, type_str=xt.show(t), misuse="x-refused-at-explicit-offset", leaf=common.jsonable(list(sc[-1])), lead=lead)
                    f = cons.feats(t, "ramp", "py", "x-refused-at-explicit-offset")
                    f["misuse"] = "x-refused-at-explicit-offset"
                    try:
                        xt.construct(t, badarg, _buffer=own2, _offset=reg)
                    except Exception as e:
                        res.oracles["raised"] += 1
                        after = place.whole(own2)
                        outside_changed = [i for i in range(min(len(before), len(after))) if before[i] != after[i] and not (reg <= i < reg + size)]
                        books = (own2.get_free(), own2.capacity, [(c.start, c.end) for c in own2.chunks])
                        if outside_changed or books != (free0, cap0, chunks0):
                            res.violations.append(common.violation("C11.no-side-effect", "buffer-touched-by-refused-constructor:x-refused-at-explicit-offset", f, cid,
                                                                   "bytes outside the region %r, allocator books %r -> %r" % (outside_changed[:6], (free0, cap0, chunks0), books)))
                        else:
                            res.outcomes["refused-cleanly:x-refused-at-explicit-offset"] += 1
                    else:
                        res.outcomes["accepted:x-refused-at-explicit-offset"] += 1
                        res.violations.append(common.violation("C11.refused", "accepted-silently:x-refused-at-explicit-offset", f, cid, "a sequence for the scalar at %r was accepted" % (sc[-1],)))
        if t[0] == "U" and v is not None:
            # a stand-alone union reference built from a member OBJECT (living in some buffer) with an explicit offset and
            # no buffer of its own: refused, and the buffer of the member object is not touched
            mt, mv = t[1][v[0]], v[1]
            mb = place.traced("np", 13 + xt.layout_size(mt, mv) + 64, default_alignment=1)
            mb.update_from_buffer(mb.allocate(13), place.poison(13, seed + 1))
            mobj = xt.construct(mt, xt.to_py(mt, mv), _buffer=mb)
            before = place.whole(mb)
            free0, cap0, log0 = mb.get_free(), mb.capacity, len(mb.log)
            for kw in (dict(_offset=8), dict(_offset=0), dict(_offset=np.int64(16))):
                res.cases += 1
                res.transitions += 1
                res.events["x-offset"] += 1
                cid = dict(type=t, type_str=xt.show(t), misuse="x-offset", kwargs=sorted(kw), argument="member-object")
                f = cons.feats(t, "ramp", "xobj", "x-offset")
                f["misuse"] = "x-offset"
                f["argument"] = "member-object"
                try:
                    xt.build(t)(mobj, **kw)
                except Exception as e:
                    res.oracles["raised"] += 1
                    if place.whole(mb) != before or mb.get_free() != free0 or mb.capacity != cap0 or len(mb.log) != log0:
                        res.violations.append(common.violation("C11.no-side-effect", "buffer-touched-by-refused-constructor:x-offset", f, cid, "bytes/allocator state of the member object's buffer changed"))
                    else:
                        res.outcomes["refused-cleanly:x-offset"] += 1
                    continue
                res.outcomes["accepted:x-offset"] += 1
                res.violations.append(common.violation("C11.refused", "accepted-silently:x-offset", f, cid, "union reference built from a member object with %r and no buffer did not raise" % sorted(kw)))
    res.states += len(types)
    res.nontrivial += len(types)


def chains(t, vmode, pname, opts, res, seed, pairs):
    """Refusals as a history: a refused operation leaves every value as it was, so the next misuse meets the same state -
    and must be refused as cleanly, whatever the first refusal left behind in the library's own books.  One world is built
    per first misuse m1 (quick tier: the first, the last and every misuse that is a whole update; thorough tier: every
    misuse), m1 is applied, then EVERY misuse of the menu is applied in that same world one after the other, each judged
    like a first one (raises, victim and neighbours read back unchanged).  A chain stops at its first violation."""
    v0 = xt.gen(t, vmode)
    try:
        sb = hist.build(t, v0, pname, [], seed)
        if not xt.veq(xt.read(t, sb.h), v0):
            return
    except Exception:
        return  # (counted as skipped by the exploration above)
    menu = misuse_menu(sb, dict(opts, prefix=0), 0)
    if len(menu) < 2:
        return
    firsts = [i for i, ev in enumerate(menu) if pairs or i in (0, len(menu) - 1) or ev[0] not in ("x-index",)]
    for i1 in firsts:
        s = hist.build(t, v0, pname, [], seed)
        try:
            with common.Watchdog(30):
                apply_misuse(s, menu[i1])
        except BaseException:
            pass
        else:
            continue  # accepted: reported by the exploration above, nothing to chain
        done = [i1]
        for i2, ev in enumerate(menu):
            viols, _ = judge(s, ev, res)
            res.transitions += 1
            res.events["chain:" + ev[0]] += 1
            done.append(i2)
            if viols:
                # is the pair (m1, m2) alone enough?  (smallest replay first)
                try:
                    s2 = hist.build(t, v0, pname, [], seed)
                    try:
                        apply_misuse(s2, menu[i1])
                    except BaseException:
                        pass
                    v2, _ = judge(s2, ev, common.ShardResult())
                    if v2:
                        done, viols = [i1, i2], v2
                except BaseException:
                    pass
                for vl in viols:
                    vl["oracle"] = vl["oracle"]
                    vl["failure"] = vl["failure"] + ":after-refusals"
                    vl["case"] = common.jsonable(dict(type=t, type_str=xt.show(t), vmode=vmode, place=pname, chain_idx=done, seed=seed,
                                                      first_refused=hist.ev_json(menu[i1]), event=hist.ev_json(ev)))
                    f = cons.feats(t, vmode, "py", pname)
                    f["depth"] = len(done)
                    f["after_refusals"] = True
                    vl["features"] = common.jsonable(f)
                    res.violations.append(vl)
                break
        res.oracles["chains"] += 1


def run_shard(shard, tier, seed):
    res = common.ShardResult()
    if shard[0] == "ctor":
        ctor_misuse(shard[1], res, seed)
        return res
    _, t, vmode, pname = shard
    opts = dict(prefix=0 if tier == "quick" else 1, max_arrays=4 if tier == "quick" else 8, deep_leaves=4)
    seen = hist.explore(t, vmode, pname, opts["prefix"] + 1, opts, judge, res, seed, menu=misuse_menu)
    chains(t, vmode, pname, opts, res, seed, pairs=(tier != "quick"))
    for v in res.violations:
        v["features"].update(v.pop("extra_features", {}))
    if seen:
        res.states = res.nontrivial = len(seen)
    if res.transitions and len(res.samples) < 1:
        res.sample(dict(type=xt.show(t), placement=pname, misuse_events=dict(res.events)))
    return res


def replay(case):
    if "ev_idx" not in case and "chain_idx" not in case:
        res = common.ShardResult()
        ctor_misuse([xt.retuple(case["type"])], res, 0)
        return res.violations
    if "chain_idx" in case:
        t = xt.retuple(case["type"])
        v0 = xt.gen(t, case["vmode"])
        for ma in (4, 8):
            opts = dict(prefix=0, max_arrays=ma, deep_leaves=4)
            s = hist.build(t, v0, case["place"], [], case.get("seed", 0))
            menu = misuse_menu(s, opts, 0)
            idx = case["chain_idx"]
            if max(idx) >= len(menu) or hist.ev_json(menu[idx[-1]]) != case["event"]:
                continue
            res = common.ShardResult()
            for i in idx[:-1]:
                try:
                    apply_misuse(s, menu[i])
                except BaseException:
                    pass
            viols, _ = judge(s, menu[idx[-1]], res)
            for vl in viols:
                vl["failure"] += ":after-refusals"
            return viols
        return []
    for prefix in (0, 1):
        opts = dict(prefix=prefix, max_arrays=8, deep_leaves=4)
        if len(case["hist_idx"]) == prefix:
            return hist.replay_case(case, opts, judge, menu=misuse_menu)
    return []
