"""C04 / C12: exhaustive exploration of allocate/free/grow histories on the real XBuffer,
in lock step with a byte-map specification (xoverif.alloc_model)."""
import itertools
import signal

from . import common
from .alloc_model import ByteMap

SIZES = [0, 1, 3, 8, 13, 16]
GROWS = [0, 1, 8]
MAXLIVE = 4
import numpy as np

NARROW = {"u8": np.uint8, "i8": np.int8, "i16": np.int16, "u16": np.uint16, "i64": np.int64}


def kinds():
    from xobjects.context_cpu import BufferNumpy, BufferByteArray

    return {"BufferNumpy": BufferNumpy, "BufferByteArray": BufferByteArray}


_ctx = None


def ctx():
    global _ctx
    if _ctx is None:
        import xobjects as xo

        _ctx = xo.ContextCpu()
    return _ctx


def freeze(v, depth=0):
    """Generic, attribute-name-free snapshot of allocator state."""
    if isinstance(v, (int, str, bool, float)) or v is None:
        return v
    if isinstance(v, (list, tuple)):
        return tuple(freeze(x, depth + 1) for x in v)
    if isinstance(v, dict):
        return tuple(sorted((str(k), freeze(x, depth + 1)) for k, x in v.items()))
    if hasattr(v, "__dict__") and depth < 4:
        return (type(v).__name__,) + tuple(sorted((k, freeze(x, depth + 1)) for k, x in vars(v).items()))
    return type(v).__name__


def snapshot(b):
    d = []
    for k, v in sorted(vars(b).items()):
        if k == "context":
            continue
        if k == "buffer":
            d.append((k, len(v)))
            continue
        d.append((k, freeze(v)))
    return tuple(d)


def tagbytes(tag, size):
    return bytes((tag * 37 + i * 11) % 251 + 1 for i in range(size))


class Sys:
    """One configuration: the real buffer + the specification + the live set."""

    want = "C12"

    def __init__(self, cfg, seed=0):
        kind, cap0, al, gs = cfg[:4]
        # optional: the kind of integer the request sizes are given as (numpy narrow kinds) and another size alphabet
        self.ikind = NARROW[cfg[4]] if len(cfg) > 4 and cfg[4] else int
        self.sizes = list(cfg[5]) if len(cfg) > 5 else SIZES
        self.cfg = cfg
        nk = NARROW[cfg[4]] if len(cfg) > 4 and cfg[4] else None
        fits = lambda v: nk is not None and v is not None and np.iinfo(nk).min <= v <= np.iinfo(nk).max
        # with a narrow integer kind, the constructor arguments that fit are given in that kind as well
        self.b = kinds()[kind](capacity=nk(cap0) if fits(cap0) else cap0, context=ctx(), default_alignment=nk(al) if fits(al) else al, grow_step=nk(gs) if fits(gs) else gs)
        self.m = ByteMap(cap0)
        self.live = []  # [off, size, tag]
        self.al = al
        self.n = seed % 97
        self.model_ok = True  # False once implementation and specification disagreed: only the invariants of C04 are judged afterwards

    def events(self):
        evs = []
        if len(self.live) < (self.cfg[7] if len(self.cfg) > 7 else MAXLIVE):
            for s in self.sizes:
                evs.append(("alloc", s, True))
                if self.al > 1:
                    evs.append(("alloc", s, False))
        for i in range(len(self.live)):
            evs.append(("free", i))
        if len(self.cfg) > 6 and self.cfg[6] == "no-grow":
            return evs  # deep histories of allocate / free only (packed and aligned requests mixed)
        for g in GROWS:
            evs.append(("grow", g))
        evs.append(("alloc-huge",))  # a request the machine cannot satisfy: refused, and nothing may have changed
        return evs

    def step(self, ev, out=None):
        """Apply ev to implementation and spec.  `out` (list) receives (oracle, label, detail) problems.
        Returns False if the branch cannot be continued (refused / disagreement)."""
        b, m = self.b, self.m
        self.n += 1
        ok = True

        def bad(oracle, label, detail=""):
            if out is not None:
                out.append((oracle, label, detail))

        cap_before = b.capacity
        if ev[0] == "alloc-huge":
            chunks_before = repr(b.chunks)
            try:
                signal.alarm(20)
                try:
                    off = b.allocate(2**62, align=False)
                finally:
                    signal.alarm(0)
            except common.Watchdog.Expired:
                bad("C12.terminates", "allocate-hangs", "allocate(2**62)")
                return False
            except (MemoryError, ValueError, OverflowError):
                if b.capacity != cap_before or repr(b.chunks) != chunks_before:
                    bad("C04.in-bounds", "state-changed-by-refused-request", dict(capacity=(cap_before, b.capacity), chunks=(chunks_before, repr(b.chunks))))
                    return False
            else:
                bad("C04.in-bounds", "out-of-bounds", dict(off=off, size=2**62, cap=b.capacity))
                return False
        elif ev[0] == "alloc":
            _, size, align = ev
            a = self.al if align else 1
            try:
                signal.alarm(20)  # handler installed once per process (arm_watchdog); a request that never returns is a finding
                try:
                    off = b.allocate(self.ikind(size), align=align)
                finally:
                    signal.alarm(0)
            except common.Watchdog.Expired:
                bad("C12.terminates", "allocate-hangs", "allocate(%r) did not return within 20 s" % (size,))
                return False
            except Exception as e:
                bad("C12.terminates", "allocate-raises:" + common.exc_failure(e), repr(e))
                return False
            cap = b.capacity
            if cap < cap_before:
                bad("C12.capacity-monotone", "capacity-shrinks", (cap_before, cap))
                return False
            fit_before = m.first_fit(size, a) if self.model_ok else None
            grew = cap != cap_before
            if self.model_ok and grew and fit_before is not None:
                bad("C12.grow-only-if-needed", "grow-though-fit", dict(fit=fit_before, cap=(cap_before, cap)))
                self.model_ok = False
            m.extend(cap)
            # C04 invariants on the returned region
            if not (isinstance(off, int) or hasattr(off, "__index__")):
                bad("C04.in-bounds", "offset-not-int", repr(off))
                return False
            off = int(off)
            if off < 0 or off + size > cap:
                bad("C04.in-bounds", "out-of-bounds", dict(off=off, size=size, cap=cap))
                return False
            if off % a:
                bad("C04.aligned", "misaligned", dict(off=off, alignment=a))
                ok = False
            for o2, s2, _ in self.live:
                if size > 0 and s2 > 0 and off < o2 + s2 and o2 < off + size:
                    bad("C04.disjoint", "overlaps-live", dict(new=(off, size), live=(o2, s2)))
                    return False
            if not self.model_ok:
                pass
            elif size > 0:
                fit = m.first_fit(size, a)
                if fit is None:
                    bad("C12.first-fit", "served-without-free-space", dict(off=off, size=size))
                    self.model_ok = False
                elif fit[1] != off:
                    bad("C12.first-fit", "placement", dict(got=off, spec=fit[1], size=size, alignment=a, free_runs=m.runs()))
                    self.model_ok = False
                else:
                    m.take(fit[0], off, size, len(self.live) + 1)
            else:
                # a zero-size request can be held by any address (also by an empty free chunk): its placement
                # is not compared; only the padding it skips inside a free run is accounted as lost
                for st, en in m.runs():
                    if st <= off <= en and -(-st // a) * a == off:
                        m.take(st, off, 0, 0)
                        break
            tag = self.n
            if size:
                b.update_from_buffer(off, tagbytes(tag, size))
            self.live.append([off, size, tag])
            self.live.sort()
        elif ev[0] == "free":
            r = self.live.pop(ev[1])
            try:
                b.free(r[0], self.ikind(r[1]))
            except Exception as e:
                bad("C12.free-never-fails", "free-raises:" + common.exc_failure(e), repr(e))
                return False
            if self.model_ok:
                m.release(r[0], r[1])
            if b.capacity != cap_before:
                bad("C12.capacity-monotone", "free-changes-capacity", (cap_before, b.capacity))
                return False
        else:
            try:
                signal.alarm(20)
                try:
                    b.grow(self.ikind(ev[1]))
                finally:
                    signal.alarm(0)
            except common.Watchdog.Expired:
                bad("C12.terminates", "grow-hangs", "")
                return False
            except Exception as e:
                bad("C12.terminates", "grow-raises:" + common.exc_failure(e), repr(e))
                return False
            if b.capacity < cap_before:
                bad("C12.capacity-monotone", "capacity-shrinks", (cap_before, b.capacity))
                return False
            m.extend(b.capacity)
        # global invariants after every transition
        for o2, s2, tg in self.live:
            if s2:
                try:
                    got = bytes(b.to_bytearray(o2, s2))
                except Exception as e:
                    bad("C04.data-kept", "read-raises:" + common.exc_failure(e), repr(e))
                    return False
                if got != tagbytes(tg, s2):
                    bad("C04.data-kept", "data-lost", dict(region=(o2, s2), after=ev))
                    ok = False
        try:
            gf = b.get_free()
        except Exception as e:
            bad("C12.accounting", "get_free-raises:" + common.exc_failure(e), repr(e))
            return False
        if self.model_ok and gf != m.free_total():
            bad("C12.accounting", "free-total", dict(reported=int(gf), spec=m.free_total(), live=[(o, s) for o, s, _ in self.live], lost=m.lost_total(), cap=b.capacity))
            self.model_ok = False
        return ok and (self.model_ok or self.want == "C04")

    def key(self):
        return (snapshot(self.b), tuple((o, s) for o, s, _ in self.live), self.model_ok)


_armed = []


def arm_watchdog():
    if _armed:
        return
    _armed.append(1)

    def fire(*a):
        raise common.Watchdog.Expired()

    signal.signal(signal.SIGALRM, fire)


def build(cfg, hist, seed, want="C12"):
    arm_watchdog()
    s = Sys(cfg, seed)
    s.want = want
    for ev in hist:
        s.step(ev)
    return s


def explore(cfg, depth, seed, res, want, lookahead=True):
    """BFS over histories of `cfg` up to `depth`, plus one allocate-only look-ahead layer."""
    feats = dict(kind=cfg[0], cap0=cfg[1], alignment=cfg[2], grow_step=cfg[3], int_kind=cfg[4] if len(cfg) > 4 else None)
    seen = {build(cfg, [], seed, want).key()}
    res.states += 1
    res.cases += 1
    frontier = [[]]
    sig_seen = set()

    def report(hist, ev, problems):
        for oracle, label, detail in problems:
            if not oracle.startswith(want):
                continue
            sig = (oracle, label)
            # keep every violation count but only the first (shortest) case per signature per config
            if sig in sig_seen:
                res.outcomes["dup:" + label] += 1
                continue
            sig_seen.add(sig)
            f = dict(feats, event=ev[0], size=ev[1] if ev[0] == "alloc" else None, depth=len(hist) + 1, free_list_empty=None)
            res.violations.append(common.violation(oracle, label, f, dict(cfg=list(cfg), history=[list(e) for e in hist], event=list(ev), seed=seed), detail))

    for d in range(depth + (1 if lookahead else 0)):
        nf = []
        last = d == depth
        for hist in frontier:
            s0 = build(cfg, hist, seed, want)
            evs = s0.events()
            if last:
                evs = [e for e in evs if e[0] == "alloc"]
            for ev in evs:
                s = build(cfg, hist, seed, want)
                problems = []
                cont = s.step(ev, problems)
                res.transitions += 1
                res.events[ev[0]] += 1
                if problems:
                    report(hist, ev, problems)
                    for _, label, _ in problems:
                        res.outcomes[label.split(":")[0]] += 1
                else:
                    res.outcomes["ok:" + ev[0] + (":grew" if s.b.capacity != s0.b.capacity else "")] += 1
                if not cont or last:
                    continue
                k = s.key()
                if k not in seen:
                    seen.add(k)
                    res.states += 1
                    nf.append(hist + [ev])
                    if len(hist) + 1 == depth and len(res.samples) < 1:
                        res.sample(dict(cfg=cfg, history=hist + [ev], live=[(o, sz) for o, sz, _ in s.live], capacity=s.b.capacity, free=s.m.free_total()))
        if not last:
            res.max_depth = max(res.max_depth, d + 1)
        frontier = nf
    res.nontrivial += len(seen)


CAPS = [0, 1, 8, 16, 24]
ALS = [1, 2, 4, 8, 16, 64]
GSS = [None, 1, 8, 16]


def plan(tier):
    """List of (cfg, depth)."""
    out = []
    if tier == "quick":
        for kind in ("BufferNumpy", "BufferByteArray"):
            for cap0, al, gs in itertools.product(CAPS, ALS, GSS):
                deep = cap0 in (0, 8) and al in (1, 4) and gs in (None, 8) and kind == "BufferNumpy"
                out.append(((kind, cap0, al, gs), 4 if deep else 3))
    # request sizes given as narrow numpy integers, capacities near the end of their range (offset + size must not wrap)
    for kind in ("BufferNumpy", "BufferByteArray"):
        for cap0, al, gs, ik, sizes in ((250, 1, None, "u8", (200, 100, 60)), (120, 8, None, "i8", (100, 27, 8)), (250, 4, 8, "u8", (100, 99, 7)),
                                        (32000, 1, None, "i16", (30000, 5000, 100)), (65000, 8, None, "u16", (60000, 6000, 24)), (250, 2, None, "i64", (200, 100, 60))):
            out.append(((kind, cap0, al, gs, ik, sizes), (2 if cap0 > 1000 else 3) if tier == "quick" else (3 if cap0 > 1000 else 4)))
    # deep histories over a narrow alphabet: allocate (packed / aligned to 8) and free only, four sizes that leave unaligned
    # holes and exact fits; what an allocator remembers about a region must not outlive the region
    out.append((("BufferNumpy", 64, 8, None, None, (3, 5, 16, 4), "no-grow", 3), 7 if tier == "quick" else 8))
    if tier != "quick":
        for cap0, al, gs in itertools.product(CAPS, ALS, GSS):
            out.append((("BufferNumpy", cap0, al, gs), 5))
        for cap0, al, gs in itertools.product((0, 8), (1, 4, 64), (None, 8)):
            out.append((("BufferByteArray", cap0, al, gs), 5))
            out.append((("BufferNumpy", cap0, al, gs), 6))
    return out


def regime_many_growths(res, want, seed):
    """Termination clause of C12 in the 'many successive growths for one request' regime."""
    for kind in kinds():
        for cap0, gs, size in ((8, 1, 7), (64, 1, 60), (1200, 1, 1199), (1200, 8, 1190), (4096, 16, 4000)):
            cfg = (kind, cap0, 1, gs)
            hist = [("alloc", cap0, True)]
            ev = ("alloc", size, True)
            s = build(cfg, hist, seed)
            problems = []
            import sys

            s.step(ev, problems)
            res.transitions += 1
            res.events["alloc-many-growths"] += 1
            res.states += 1
            for oracle, label, detail in problems:
                if oracle.startswith(want):
                    f = dict(kind=kind, cap0=cap0, alignment=1, grow_step=gs, event="alloc", size=size, regime="many-growths")
                    res.violations.append(common.violation(oracle, label, f, dict(cfg=list(cfg), history=[list(e) for e in hist], event=list(ev), seed=seed), detail))
                res.outcomes[label.split(":")[0]] += 1
            if not problems:
                res.outcomes["ok:many-growths"] += 1


def replay_case(case, want):
    cfg = tuple(case["cfg"])
    hist = [tuple(e) for e in case["history"]]
    s = build(cfg, hist, case.get("seed", 0))
    problems = []
    s.step(tuple(case["event"]), problems)
    return [p for p in problems if p[0].startswith(want)]
