"""C14: every class API is emitted once, after all of its dependencies (DESIGN.md 2/C14)."""
import hashlib
import itertools
import os
import shutil
import tempfile

from . import cnative, common

PID = "C14"
KINDS = ["S", "E", "A", "U", "H", "D"]  # struct with fields, field-less struct, array of, unionref of, hybrid class, declared subclass of an array node


def describe(tier):
    n = 3 if tier == "quick" else 4
    return dict(
        rule="all dependency graphs on n <= %d named classes: node kind in {struct with fields, field-less struct, array of, union reference of, hybrid class, declared subclass of an array node}; "
        "structural edges (field by value, field through Ref, array item, union members) to earlier nodes consistent with the kind, plus arbitrary _depends_on (on structs, hybrids and unions) "
        "edges (also forward ones, which close cycles); x every non-empty root subset in every order. Oracle: sort_classes(roots) holds the transitive closure, "
        "each class exactly once, each after everything it depends on; the source assembled by ContextCpu._build_sources has each XOBJ_TYPEDEF block once and "
        "passes gcc -fsyntax-only; the declarations are accepted by cffi.FFI().cdef; a real ctx.add_kernels(kernels={}, extra_classes=roots) for every small "
        "graph; every cyclic graph raises ValueError; root lists that contain two distinct classes of the same name (the documented override mechanism) emit the last one together with ITS dependencies." % n,
        bounds=dict(max_nodes=n, max_depends_on_edges=2 if tier == "quick" else 3, real_builds="graphs with <= 2 nodes" if tier == "quick" else "graphs with <= 3 nodes (every 7th)"),
        assumptions=["class names are unique inside one graph (xobjects keeps the last class of a name)"],
        must_fire=["sort", "cycle", "compile", "cdef", "build", "override"],
    )


def graphs(n, max_dep):
    """yield (kinds, struct_edges, dep_edges): struct_edges[i] = tuple of (j, how) with j < i, dep_edges = set of (i, j)"""
    for kinds in itertools.product(KINDS, repeat=n):
        if kinds[0] in ("A", "U", "D"):
            continue
        per_node = []
        ok = True
        for i, k in enumerate(kinds):
            earlier = list(range(i))
            opts = []
            if k in ("S", "H"):
                # each earlier node: absent, by value, through a reference (hybrids take struct-like nodes only)
                choices = []
                for j in earlier:
                    c = [None, (j, "val")]
                    if kinds[j] in ("S", "E", "H", "A", "D"):
                        c.append((j, "ref"))
                    choices.append(c)
                for combo in itertools.product(*choices) if choices else [()]:
                    opts.append(tuple(x for x in combo if x is not None))
            elif k == "E":
                opts = [()]
            elif k == "A":
                opts = [((j, "item"),) for j in earlier if kinds[j] in ("S", "E", "H", "U", "A", "D")]
                # ... and arrays whose items are REFERENCES to an earlier node (Ref[N0][3])
                opts += [((j, "refitem"),) for j in earlier if kinds[j] in ("S", "E", "H", "A", "D")]
            elif k == "D":
                opts = [((j, "base"),) for j in earlier if kinds[j] == "A"]
            elif k == "U":
                mem = [j for j in earlier if kinds[j] in ("S", "E", "H", "A", "D")]
                opts = [((j, "member"),) for j in mem] + [((a, "member"), (b, "member")) for a, b in itertools.combinations(mem, 2)]
            if not opts:
                ok = False
                break
            per_node.append(opts)
        if not ok:
            continue
        dep_candidates = [(i, j) for i in range(n) for j in range(n) if i != j and kinds[i] in ("S", "E", "H", "U")]
        for se in itertools.product(*per_node):
            for r in range(0, max_dep + 1):
                for deps in itertools.combinations(dep_candidates, r):
                    yield kinds, se, frozenset(deps)


def build_classes(kinds, se, deps=()):
    """`deps`: the _depends_on edges.  Edges to EARLIER nodes are declared in the class statement (for a hybrid class: the
    dependency given as a hybrid class where it is one, no _kernels on the declaring class); apply_deps adds the others."""
    import xobjects as xo

    classes = []  # the sortable class of each node
    hybrids = {}
    _declared.clear()
    _hyb.clear()
    for i, k in enumerate(kinds):
        # every name is a proper prefix of the names of the later nodes (N0, N0q, N0qq, ...): a class is told from another by its
        # whole name, wherever text is searched for names
        name = "N0" + "q" * i
        if k in ("S", "H"):
            # several distinct leaf types (they are nodes of the dependency graph too, without an API of their own)
            fields = {"x": xo.Int64, "y": xo.Float64, "z": xo.Int8, "w": xo.UInt16}
            for j, how in se[i]:
                tgt = classes[j]
                fields["f%d" % j] = tgt if how == "val" else xo.Ref[tgt]
            if k == "S":
                c = type(name, (xo.Struct,), dict(fields, _depends_on=[]))
            else:
                back = sorted(j for a, j in deps if a == i and j < i)
                h = type(name, (xo.HybridClass,), dict(_xofields=fields, _cname=name, _depends_on=[hybrids.get(j, classes[j]) for j in back]))
                _declared.update((i, j) for j in back)
                hybrids[i] = h
                c = h._XoStruct
        elif k == "E":
            c = type(name, (xo.Struct,), dict(_depends_on=[]))
        elif k == "A":
            c = (xo.Ref[classes[se[i][0][0]]] if se[i][0][1] == "refitem" else classes[se[i][0][0]])[2 + i]  # distinct extents: two array nodes over the same item must not share a class name
        elif k == "D":
            c = type(name, (classes[se[i][0][0]],), {})  # class N2(N1): pass -- N1 an array class that may be built itself
        elif k == "U":
            c = type(name, (xo.UnionRef,), dict(_reftypes=[classes[j] for j, _ in se[i]], _depends_on=[]))
        classes.append(c)
    _hyb.update(hybrids)
    return classes


_declared = set()
_hyb = {}
_KEPT_SOURCES = ["/* c14: a piece of text the caller keeps in one list for every build */"]


def apply_deps(classes, deps):
    # process history: the classes have been through a sort (a build) BEFORE their declarations are completed below;
    # whatever that first sort remembers about a class must not decide the later ones
    try:
        from xobjects.context import sort_classes

        sort_classes(list(classes))
    except Exception:
        pass
    for i, j in deps:
        if (i, j) not in _declared:
            # a plain struct / union names a hybrid class as such (class N1(xo.HybridClass)), not its _XoStruct
            dep = _hyb[j] if (j in _hyb and not hasattr(classes[i], "_DressingClass")) else classes[j]
            classes[i]._depends_on.append(dep)


def model(kinds, se, deps, classes):
    """dependency relation on emitted class names (implicit Ref nodes included): name -> set of names it needs"""
    need = {}
    for i, c in enumerate(classes):
        need.setdefault(c.__name__, set())
        for j, how in se[i]:
            if how == "base":
                # a declared subclass has the item of its base, not the base, as dependency
                bj, bhow = se[j][0]
                if bhow == "refitem":
                    rn = "Ref" + classes[bj].__name__
                    need.setdefault(rn, set()).add(classes[bj].__name__)
                    need[c.__name__].add(rn)
                else:
                    need[c.__name__].add(classes[bj].__name__)
            elif how in ("ref", "refitem"):
                rn = "Ref" + classes[j].__name__
                need.setdefault(rn, set()).add(classes[j].__name__)
                need[c.__name__].add(rn)
            else:
                need[c.__name__].add(classes[j].__name__)
    for i, j in deps:
        need[classes[i].__name__].add(classes[j].__name__)
    return need


def closure(need, roots):
    out, todo = set(), list(roots)
    while todo:
        x = todo.pop()
        if x in out:
            continue
        out.add(x)
        todo.extend(need.get(x, ()))
    return out


def has_cycle(need, among):
    color = {}

    def visit(x):
        color[x] = 1
        for y in need.get(x, ()):
            if color.get(y) == 1:
                return True
            if y not in color and visit(y):
                return True
        color[x] = 2
        return False

    return any(visit(x) for x in among if x not in color)


def shards(tier, seed):
    nmax = 3 if tier == "quick" else 4
    out = []
    for n in range(1, nmax + 1):
        for kinds in itertools.product(KINDS, repeat=n):
            if kinds[0] in ("A", "U"):
                continue
            out.append((n, kinds))
    return out[seed % len(out):] + out[: seed % len(out)]


def run_shard(shard, tier, seed):
    import cffi
    import xobjects as xo
    from xobjects.context import sort_classes

    n, want_kinds = shard
    res = common.ShardResult()
    max_dep = 2 if tier == "quick" else (3 if n <= 3 else 1)
    work = tempfile.mkdtemp(prefix="xoverif-c14-", dir=os.getcwd())
    compiled = {}
    sig = set()
    gcount = 0

    def bad(oracle, failure, g, roots, detail):
        res.outcomes["bad:" + failure.split(":")[0]] += 1
        if (oracle, failure) in sig:
            return
        sig.add((oracle, failure))
        kinds, se, deps = g
        f = dict(nodes=len(kinds), kinds="".join(kinds), fieldless_depended=any(kinds[j] == "E" for i in range(len(kinds)) for j, _ in se[i]) or any(kinds[j] == "E" for i, j in deps),
                 has_depends_on=bool(deps), has_ref_edge=any(h == "ref" for e in se for _, h in e), has_hybrid="H" in kinds, roots=len(roots))
        res.violations.append(common.violation(oracle, failure, f, dict(kinds=list(kinds), struct_edges=[list(map(list, e)) for e in se], depends_on=sorted(map(list, deps)), roots=list(roots)), detail))

    try:
        for g in graphs(n, max_dep):
            kinds, se, deps = g
            if kinds != want_kinds:
                continue
            gcount += 1
            try:
                classes = build_classes(kinds, se, deps)
            except Exception as e:
                res.skipped["class-definition-refused:" + common.exc_failure(e)] += 1
                continue
            apply_deps(classes, deps)
            need = model(kinds, se, deps, classes)
            res.cases += 1
            all_names = [c.__name__ for c in classes]
            orders = []
            for r in range(1, n + 1):
                for sub in itertools.permutations(range(n), r):
                    orders.append(sub)
            for roots in orders:
                rnames = [classes[i].__name__ for i in roots]
                clo = closure(need, rnames)
                cyc = has_cycle(need, rnames)
                res.transitions += 1
                try:
                    out = sort_classes([classes[i] for i in roots])
                except ValueError as e:
                    if cyc:
                        res.events["cycle"] += 1
                        res.outcomes["ok:cycle-refused"] += 1
                    else:
                        bad("C14.sort", "acyclic-graph-refused", g, roots, repr(e))
                    continue
                except Exception as e:
                    bad("C14.sort", "sort-raises:" + common.exc_failure(e), g, roots, repr(e))
                    continue
                if cyc:
                    res.events["cycle"] += 1
                    bad("C14.cycle", "cycle-not-reported", g, roots, "sort_classes returned %r" % [c.__name__ for c in out])
                    continue
                res.events["sort"] += 1
                names = [c.__name__ for c in out]
                if set(names) != clo:
                    bad("C14.closure", "closure-differs", g, roots, "emitted %r, transitive closure %r" % (names, sorted(clo)))
                    continue
                if len(names) != len(set(names)):
                    bad("C14.once", "class-emitted-twice", g, roots, "emitted %r" % names)
                    continue
                pos = {nm: k for k, nm in enumerate(names)}
                late = [(a, b) for a in names for b in need.get(a, ()) if pos[b] > pos[a]]
                if late:
                    bad("C14.order", "dependency-after-use", g, roots, "emitted %r; %r" % (names, late[:3]))
                    continue
                res.outcomes["ok:sort"] += 1
                # a class that enters a build ONLY as the return type of a kernel (arguments are plain numbers)
                if len(roots) == 1:
                    res.transitions += 1
                    res.events["return-type-root"] += 1
                    try:
                        kd = {"c14k": xo.Kernel(args=[xo.Arg(xo.Int64, name="n")], ret=xo.Arg(classes[roots[0]]), c_name="c14k")}
                        ks = xo.ContextCpu().build_kernels(kernel_descriptions=kd, sources=[], compile=False)
                        rspec = ks[next(iter(ks))].specialized_source
                        missing = [nm for nm in names if rspec.count("#define XOBJ_TYPEDEF_%s\n" % nm) != 1]
                        if missing:
                            bad("C14.closure", "return-type-class-not-emitted", g, roots, "kernel returning %s: API of %r emitted %r times" % (rnames[0], missing, [rspec.count("#define XOBJ_TYPEDEF_%s\n" % nm) for nm in missing]))
                            continue
                    except Exception as e:
                        bad("C14.source", "return-type-build-raises:" + common.exc_failure(e), g, roots, repr(e))
                        continue
                # source assembly for the full root list in canonical order (and every root order for tiny graphs)
                if len(roots) == n and (roots == tuple(range(n)) or n <= 2):
                    ctx = xo.ContextCpu()
                    try:
                        # (the caller's own list of sources, one list object kept for all builds of the process)
                        src, spec = ctx._build_sources(classes=out, extra_headers=[], specialize=True, sources=_KEPT_SOURCES)
                        cdefs = "\n".join(c._gen_c_decl({}) for c in out)
                    except Exception as e:
                        bad("C14.source", "source-assembly-raises:" + common.exc_failure(e), g, roots, repr(e))
                        continue
                    for nm in names:
                        k = spec.count("#define XOBJ_TYPEDEF_%s\n" % nm)
                        if k != 1:
                            bad("C14.once", "api-block-count", g, roots, "XOBJ_TYPEDEF_%s defined %d times" % (nm, k))
                    h = hashlib.sha1(spec.encode()).hexdigest()
                    if h not in compiled:
                        fn = os.path.join(work, "s.c")
                        open(fn, "w").write(spec)
                        rc, o, err = cnative.run(["gcc", "-std=c99", "-fsyntax-only", "-Wno-unused-function", fn], work)
                        compiled[h] = (rc, err)
                        res.transitions += 1
                        res.events["compile"] += 1
                    rc, err = compiled[h]
                    if rc:
                        bad("C14.compiles", "emitted-source-rejected", g, roots, err[-1200:])
                    res.events["cdef"] += 1
                    try:
                        cffi.FFI().cdef(cdefs)
                    except Exception as e:
                        bad("C14.cdef", "declarations-rejected:" + type(e).__name__, g, roots, str(e)[:500])
                    do_build = n <= 2 if tier == "quick" else (n <= 2 or (n == 3 and gcount % 7 == 0))
                    if do_build and roots == tuple(range(n)):
                        res.transitions += 1
                        res.events["build"] += 1
                        try:
                            ctx.add_kernels(kernels={}, sources=_KEPT_SOURCES, extra_classes=[classes[i] for i in roots], extra_compile_args=("-O0", "-w"), extra_link_args=())
                            res.outcomes["ok:build"] += 1
                        except Exception as e:
                            bad("C14.build", "add_kernels-raises:" + type(e).__name__, g, roots, str(e)[-800:])
            res.states += 1
            # ---- same-named roots: "in case of multiple classes with the same name, the last one is used" (the override mechanism of
            # extra_classes): the class emitted for a name and the dependencies collected for it must both be the last one's
            if not deps and (n <= 2 or tier == "thorough"):
                for i, k in enumerate(kinds):
                    if k != "S":
                        continue
                    extra = type("XExtra", (xo.Struct,), {"y": xo.Int64})
                    fields = {"x": xo.Int64, "extra": extra}
                    for j, how in se[i]:
                        fields["f%d" % j] = classes[j] if how == "val" else xo.Ref[classes[j]]
                    override = type(classes[i].__name__, (xo.Struct,), dict(fields, _depends_on=[]))
                    others = [c for q, c in enumerate(classes) if q != i]
                    for roots_o, last in (([classes[i], override] + others, override), ([override, classes[i]] + others, classes[i]), (others + [classes[i], override], override)):
                        res.transitions += 1
                        res.events["override"] += 1
                        try:
                            out = sort_classes(list(roots_o))
                        except Exception as e:
                            bad("C14.sort", "override-sort-raises:" + common.exc_failure(e), g, [i], repr(e))
                            continue
                        names = [c.__name__ for c in out]
                        if len(names) != len(set(names)):
                            bad("C14.once", "class-emitted-twice", g, [i], "same-named roots: emitted %r" % names)
                            continue
                        byname = {c.__name__: c for c in out}
                        if byname.get(classes[i].__name__) is not last:
                            bad("C14.closure", "override-not-last-class", g, [i], "the class emitted for %s is not the last root of that name" % classes[i].__name__)
                            continue
                        if last is override:
                            if "XExtra" not in names:
                                bad("C14.closure", "dependency-of-overriding-class-missing", g, [i], "emitted %r: the last class named %s depends on XExtra" % (names, classes[i].__name__))
                                continue
                            if names.index("XExtra") > names.index(classes[i].__name__):
                                bad("C14.order", "dependency-after-use", g, [i], "emitted %r" % names)
                                continue
                        # everything every emitted class needs comes before it
                        pos = {nm: q for q, nm in enumerate(names)}
                        late = []
                        for c in out:
                            for dep in (c._get_inner_types() if hasattr(c, "_get_inner_types") else []) + list(getattr(c, "_depends_on", [])):
                                if hasattr(dep, "_gen_c_api") and pos.get(dep.__name__, -1) > pos[c.__name__]:
                                    late.append((c.__name__, dep.__name__))
                                if hasattr(dep, "_gen_c_api") and dep.__name__ not in pos:
                                    late.append((c.__name__, dep.__name__ + " (missing)"))
                        if late:
                            bad("C14.order", "dependency-after-use", g, [i], "same-named roots: emitted %r; %r" % (names, late[:3]))
                            continue
                        try:
                            cffi.FFI().cdef("\n".join(c._gen_c_decl({}) for c in out))
                            res.outcomes["ok:override"] += 1
                        except Exception as e:
                            bad("C14.cdef", "declarations-rejected:" + type(e).__name__, g, [i], "same-named roots: " + str(e)[:400])
    finally:
        shutil.rmtree(work, ignore_errors=True)
    res.nontrivial = res.states
    res.max_depth = 1
    if gcount and n == 3:
        res.sample(dict(kinds="".join(want_kinds), graphs=gcount))
    return res


def replay(case):
    from xobjects.context import sort_classes

    kinds = tuple(case["kinds"])
    se = tuple(tuple((j, h) for j, h in e) for e in case["struct_edges"])
    deps = frozenset(tuple(d) for d in case["depends_on"])
    classes = build_classes(kinds, se, deps)
    apply_deps(classes, deps)
    need = model(kinds, se, deps, classes)
    roots = case["roots"]
    try:
        out = sort_classes([classes[i] for i in roots])
    except Exception as e:
        return [] if has_cycle(need, [classes[i].__name__ for i in roots]) else [repr(e)]
    names = [c.__name__ for c in out]
    problems = []
    if len(names) != len(set(names)):
        problems.append("emitted twice: %r" % names)
    if set(names) != closure(need, [classes[i].__name__ for i in roots]):
        problems.append("closure differs: %r" % names)
    return problems
