"""The bounded, exhaustive type universe (DESIGN.md 1.2)."""
import itertools

from .xt import KINDS, STR, Sc, St, Arr, Ref, URef, is_dyn, has_refs

EXT = (2, 3, 4)


def shapes_full():
    out = []
    for rank in (1, 2, 3):
        for mask in itertools.product((False, True), repeat=rank):
            dims = tuple(None if m else EXT[i] for i, m in enumerate(mask))
            for order in itertools.permutations(range(rank)):
                out.append((dims, order))
    return out  # 2 + 8 + 48 = 58


SH_RED = [
    ((2,), (0,)),
    ((None,), (0,)),
    ((2, 3), (0, 1)),
    ((2, 3), (1, 0)),
    ((None, 3), (1, 0)),
    ((2, None), (0, 1)),
    ((None, None), (1, 0)),
    ((2, 3, 4), (1, 2, 0)),
    ((None, 3, None), (2, 0, 1)),
]
SH_3 = [((2,), (0,)), ((None,), (0,)), ((None, 3), (1, 0))]

U0 = [Sc(k) for k in KINDS] + [STR]
R0 = [Sc("i8"), Sc("i16"), Sc("f32"), Sc("i64"), Sc("f64"), STR]


def u1_arrays(leaves=None):
    return [Arr(t, d, o) for t in (leaves or U0) for d, o in shapes_full()]


def u1_structs(maxf=3):
    out = []
    for n in range(1, maxf + 1):
        for fs in itertools.product(R0, repeat=n):
            out.append(St(*fs))
    return out


# representatives of level-1 types, one or two per layout signature (kind, static size mod 8 / dynamic, refs)
A_SS = Arr(Sc("f64"), (2, 3), (1, 0))
A_SS8 = Arr(Sc("i8"), (3,))
A_DS = Arr(Sc("i16"), (None,))
A_DS2 = Arr(Sc("f32"), (None, 3), (1, 0))
A_SD = Arr(STR, (2,))
A_DD = Arr(STR, (None,))
S_S = St(Sc("i8"), Sc("f64"))
S_D1 = St(Sc("i64"), STR)
S_D2 = St(STR, Sc("i16"), Arr(Sc("f64"), (None,)))
R1 = [A_SS, A_SS8, A_DS, A_DS2, A_SD, A_DD, S_S, S_D1, S_D2]
R1_REFS = [Ref(S_S), Ref(S_D1), Ref(A_DS), Ref(A_SD)]
R1_UREFS = [URef(S_S), URef(S_S, S_D2), URef(A_DS, S_D1)]


def u2_arrays(shapes=SH_RED):
    return [Arr(t, d, o) for t in R1 + R1_REFS + R1_UREFS for d, o in shapes]


def u2_structs(maxf=2):
    pool = R0 + R1 + R1_REFS + R1_UREFS
    out = []
    for n in range(1, maxf + 1):
        for fs in itertools.product(pool, repeat=n):
            if all(f in R0 for f in fs):
                continue  # already in U1
            out.append(St(*fs))
    return out


def u2_urefs():
    return [URef(S_S), URef(S_D1), URef(A_DS), URef(S_S, S_D2), URef(A_SD, S_S), URef(A_SS, A_DD)]


# level 3: one more application of every constructor to representatives of level 2
S2_REF = St(Sc("i32"), Ref(S_D1))  # static struct holding a reference
S2_UREF = St(URef(S_S, S_D2), Sc("u8"))
S2_NEST = St(S_D2, Sc("u16"), S_S)  # dynamic struct nesting structs
S2_ARRS = St(Arr(S_D1, (None,)), Arr(Sc("u32"), (2, None), (1, 0)))
A2_STRUCT = Arr(S_D1, (None,))
A2_REFARR = Arr(Ref(A_SD), (2,))
A2_NESTARR = Arr(A_DS, (2, None), (1, 0))
A2_UREF = Arr(URef(S_S, S_D2), (None,))
R2 = [S2_REF, S2_UREF, S2_NEST, S2_ARRS, A2_STRUCT, A2_REFARR, A2_NESTARR, A2_UREF]


def u3():
    out = []
    for t in R2:
        for d, o in SH_3:
            out.append(Arr(t, d, o))
        out.append(St(t, Sc("i8")))
        out.append(St(STR, t))
        out.append(St(Sc("f32"), Ref(t)))
        out.append(St(URef(t, S_S)))
    out.append(URef(S2_REF, A2_REFARR))
    # structs with three and four dynamically sized fields (offset table of more than one word)
    out += [St(STR, A_DS, S_D1), St(Sc("i8"), STR, A_DD, STR), St(A_DD, STR, S_D2, Sc("f64"), A_DS2)]
    # N-D arrays of dynamic items with cyclic axis orders *nested* inside other objects: they are reached through views only
    cyc = [Arr(STR, (2, 3, 4), (1, 2, 0)), Arr(STR, (None, 3, None), (2, 0, 1)), Arr(S_D1, (2, 2, 2), (2, 0, 1)), Arr(A_DS, (2, None, 2), (1, 2, 0))]
    # items large enough for strides beyond the range of small integer kinds (lengths / indices given as numpy integers)
    big = Arr(Sc("f64"), (3, 3), (0, 1))
    out += [Arr(big, (None, None), (0, 1)), Arr(big, (None, None), (1, 0)), St(Sc("i8"), Arr(big, (None,))), Arr(St(Sc("f64"), Sc("f64"), Sc("i64"), Sc("f64"), Sc("f64"), Sc("u8")), (None, 2), (1, 0))]
    for a in cyc:
        out.append(St(Sc("i8"), a))
        out.append(St(a, STR))
        out.append(Arr(a, (2,)))
        out.append(St(Ref(a), Sc("i64")))
    return out


def u2_structs3():
    """all 3-field structs over leaf and level-1 representatives (thorough tier)"""
    pool = R0 + R1 + R1_REFS[:2] + R1_UREFS[:1]
    out = []
    for fs in itertools.product(pool, repeat=3):
        if all(f in R0 for f in fs):
            continue
        out.append(St(*fs))
    return out


def universe(tier, what="all"):
    """List of types of the tier.  `what`: all | arrays1 | noref"""
    if tier == "quick":
        ts = u1_arrays() + u1_structs(2) + u2_arrays() + u2_structs(1) + [St(a, b) for a in (S_D1, A_DS, Ref(S_S), URef(S_S, S_D2)) for b in R0 + R1 + R1_REFS] + u2_urefs() + u3()
    else:
        ts = u1_arrays() + u1_structs(3) + u2_arrays() + u2_structs(2) + u2_urefs() + u3()
        if what == "all+3":
            ts = ts + u2_structs3()
    seen = set()
    out = []
    for t in ts:
        if t not in seen:
            seen.add(t)
            out.append(t)
    if what == "all+3":
        what = "all"
    if what == "noref":
        out = [t for t in out if not has_refs(t)]
    return out


def rh(tier):
    """Sub-universe for history systems: every layout-signature combination at depth <= 3 (roots of a BFS)."""
    ts = [
        St(Sc("i8"), Sc("f64"), Sc("u16")),
        S_D1,
        S_D2,
        St(STR, STR),
        St(A_SS8, STR, A_DS),
        A_SS,
        A_DS,
        A_DS2,
        A_SD,
        A_DD,
        Arr(STR, (2, None), (1, 0)),
        Arr(Sc("i32"), (2, 3, 4), (1, 2, 0)),
        Arr(Sc("u8"), (None, 3, None), (2, 0, 1)),
        S2_NEST,
        S2_ARRS,
        A2_STRUCT,
        A2_NESTARR,
        Arr(S_S, (2, 3), (1, 0)),
        St(Sc("i64"), Arr(S_D1, (2,))),
        S2_REF,
        S2_UREF,
        A2_REFARR,
        A2_UREF,
        St(Ref(A_DS), Sc("f32")),
        Arr(Ref(S_S), (None,)),
        URef(S_S, S_D2),
        St(STR, S2_REF),
        St(Sc("i32"), A_DD),
        St(Arr(STR, (2, 2), (1, 0)), Sc("u8")),
        St(Arr(A_DS, (2,)), STR),
        St(Sc("i8"), Arr(STR, (2, 2, 2), (1, 2, 0))),
        St(STR, A_DS, S_D1),
        Arr(Arr(STR, (2, 1, 2), (2, 0, 1)), (2,)),
        # union references held by value inside compounds that are updated as a whole; large strides / many items (index arithmetic)
        St(Sc("i64"), St(Sc("f64"), Sc("i64"), URef(S_S, S_D2))),
        St(Arr(St(Sc("f64"), URef(S_S, S_D2)), (3,)), Sc("i64")),
        Arr(Arr(Sc("f64"), (3, 3), (0, 1)), (None,)),
        St(Arr(Sc("f64"), (None, 3), (0, 1)), Sc("i16")),
    ]
    if tier == "thorough":
        ts += [
            Arr(St(Sc("i16"), URef(S_S, S_D2)), (None,)),
            St(STR, St(Sc("f64"), URef(S_D2, S_S)), Sc("i8")),
            Arr(Sc("f64"), (2, 3, 6), (0, 1, 2)),
            Arr(S_D2, (2,)),
            Arr(A_SD, (None,)),
            Arr(Sc("f32"), (None, None), (1, 0)),
            Arr(STR, (2, 3), (1, 0)),
            Arr(STR, (None, 3, 2), (1, 2, 0)),
            St(S_D1, S_D1),
            St(A_DD, A_DD, Sc("i8")),
            St(Sc("i8"), S_S, Sc("i8")),
            St(URef(A_DS, S_D1), Ref(S_D2)),
            Arr(S2_REF, (2,)),
            Arr(S2_UREF, (None,)),
            St(A2_REFARR, STR),
            Arr(Arr(Sc("i64"), (2,)), (None, 2), (1, 0)),
            URef(A_SD, S_S),
            St(Sc("u64"), Sc("i8"), Sc("f32")),
            St(Arr(Sc("f64"), (2, None), (1, 0)), STR),
        ]
    return ts
