"""Common machinery: shard runner, violation triage (known findings), evidence, replay files.

Every check module exposes
    PID                       property id
    describe(tier) -> dict    rule / bounds / assumptions (static text + alphabets)
    shards(tier, seed) -> list of picklable shard descriptors
    run_shard(shard, tier, seed) -> ShardResult  (executed in a worker process)
    replay(case) -> list of violation dicts       (re-executes one recorded case)
"""
import collections
import hashlib
import json
import multiprocessing
import os
import re
import resource
import shutil
import signal
import sys
import tempfile
import time
import traceback

VERIF = os.path.dirname(os.path.dirname(os.path.abspath(__file__)))
REPO = os.environ.get("XOVERIF_REPO", "/repo")
NWORKERS = int(os.environ.get("XOVERIF_WORKERS", "16"))
MEM_LIMIT = int(os.environ.get("XOVERIF_MEM_GB", "6")) << 30


def jsonable(x):
    """Best-effort conversion of harness data to JSON-compatible data."""
    import numpy as np

    if isinstance(x, dict):
        return {str(k): jsonable(v) for k, v in x.items()}
    if isinstance(x, (list, tuple, set, frozenset)):
        return [jsonable(v) for v in x]
    if isinstance(x, (np.integer,)):
        return int(x)
    if isinstance(x, (np.floating,)):
        return repr(float(x))
    if isinstance(x, float):
        return x if x == x and abs(x) != float("inf") else repr(x)
    if isinstance(x, (bytes, bytearray)):
        return x.hex()
    if isinstance(x, (str, int, bool)) or x is None:
        return x
    if isinstance(x, np.ndarray):
        return jsonable(x.tolist())
    return repr(x)


class ShardResult:
    """Counters and findings of one shard; merged by the parent."""

    def __init__(self):
        self.states = 0  # distinct states (canonical forms) seen in this shard
        self.transitions = 0  # operations executed on the implementation and judged
        self.cases = 0  # initial cases
        self.nontrivial = 0  # distinct non trivial cases by the check's rule
        self.skipped = collections.Counter()  # reason -> count (never silent)
        self.outcomes = collections.Counter()  # distinct observed outcome classes
        self.events = collections.Counter()  # per event kind
        self.oracles = collections.Counter()  # per oracle comparisons performed
        self.violations = []  # list of dict (see violation())
        self.samples = []  # a few written-out cases
        self.max_depth = 0
        self.capped = False
        self.notes = []

    def merge(self, o):
        self.states += o.states
        self.transitions += o.transitions
        self.cases += o.cases
        self.nontrivial += o.nontrivial
        self.skipped.update(o.skipped)
        self.outcomes.update(o.outcomes)
        self.events.update(o.events)
        self.oracles.update(o.oracles)
        self.violations.extend(o.violations)
        for s in o.samples:
            if len(self.samples) < 6:
                self.samples.append(s)
        self.max_depth = max(self.max_depth, o.max_depth)
        self.capped = self.capped or o.capped
        self.notes.extend(o.notes)

    def sample(self, s):
        if len(self.samples) < 2:
            self.samples.append(jsonable(s))


def violation(oracle, failure, features, case, detail=""):
    """A violation record.
    oracle   : name of the violated clause / oracle
    failure  : failure kind (exception class + innermost xobjects frame, or clause label)
    features : dict of case features used for known-finding matching
    case     : replayable description (JSON-able)
    """
    return {
        "oracle": oracle,
        "failure": failure,
        "features": jsonable(features),
        "case": jsonable(case),
        "detail": str(detail)[:2000],
    }


def exc_failure(e):
    """Exception class + innermost frame inside xobjects (stable label for triage)."""
    tb = traceback.extract_tb(e.__traceback__)
    where = ""
    for fr in reversed(tb):
        fn = fr.filename.replace("\\", "/")
        if "/xobjects/" in fn and "/xoverif/" not in fn:
            where = "%s:%s" % (os.path.basename(fn), fr.name)
            break
    return "%s@%s" % (type(e).__name__, where)


# --------------------------------------------------------------------------
# known findings


def load_findings():
    p = os.path.join(VERIF, "known_findings.json")
    if not os.path.exists(p):
        return []
    with open(p) as f:
        return json.load(f)["findings"]


def match_finding(pid, v, findings):
    for f in findings:
        if f.get("property") != pid or f.get("status") != "open":
            continue
        if f.get("oracle") and f["oracle"] != v["oracle"]:
            continue
        if f.get("failure") and not re.fullmatch(f["failure"], v["failure"]):
            continue
        ok = True
        for k, want in f.get("where", {}).items():
            have = v["features"].get(k)
            if isinstance(want, list):
                if have not in want:
                    ok = False
                    break
            elif have != want:
                ok = False
                break
        if ok:
            return f
    return None


# --------------------------------------------------------------------------
# workers

_scratch = None


def _worker_init():
    global _scratch
    signal.signal(signal.SIGINT, signal.SIG_IGN)
    try:
        hard = resource.getrlimit(resource.RLIMIT_AS)[1]
        resource.setrlimit(resource.RLIMIT_AS, (MEM_LIMIT, hard))  # soft only: sanitizer subprocesses lift it again
    except Exception:
        pass
    _scratch = tempfile.mkdtemp(prefix="xoverif-w-")
    os.chdir(_scratch)
    quiet()


def quiet():
    try:
        import xobjects as xo

        xo.context_cpu.ContextCpu._compile_kernels_info = False
        xo.general._print.suppress = True
    except Exception:
        pass


class Watchdog:
    """Per-case watchdog (SIGALRM).  Expiry raises WatchdogExpired in the worker."""

    class Expired(BaseException):
        pass

    def __init__(self, seconds):
        self.seconds = seconds

    def _fire(self, *a):
        raise Watchdog.Expired()

    def __enter__(self):
        self.old = signal.signal(signal.SIGALRM, self._fire)
        signal.alarm(self.seconds)

    def __exit__(self, *a):
        signal.alarm(0)
        signal.signal(signal.SIGALRM, self.old)
        return False


_crumb_path = None


def breadcrumb(text):
    """remember what the worker is about to do (read by the parent if the worker dies in native code)"""
    if _crumb_path:
        try:
            with open(_crumb_path, "w") as f:
                f.write(text)
        except OSError:
            pass


def _run_one(args):
    modname, shard, tier, seed = args
    mod = __import__("xoverif." + modname, fromlist=["x"])
    try:
        r = mod.run_shard(shard, tier, seed)
    except BaseException as e:  # harness error: never a VIOLATION
        r = ShardResult()
        r.notes.append("HARNESS-ERROR in shard %r: %s" % (str(shard)[:300], "".join(traceback.format_exception(e))[-3000:]))
    return r


def _child(conn, crumb, args):
    global _crumb_path
    _crumb_path = crumb
    _worker_init()
    try:
        r = _run_one(args)
        conn.send(r)
    finally:
        conn.close()
        if _scratch:
            shutil.rmtree(_scratch, ignore_errors=True)
        os._exit(0)


SHARD_TIMEOUT = int(os.environ.get("XOVERIF_SHARD_TIMEOUT", "3600"))


def run_check(modname, tier, seed, workers=None):
    """Run a check module: one forked child per shard (a child dying in native code cannot hang or take down the run),
    triage, write evidence, print lines, return exit code."""
    from multiprocessing.connection import wait as mpwait

    mod = __import__("xoverif." + modname, fromlist=["x"])
    t0 = time.time()
    quiet()  # imports xobjects once in the parent: forked children inherit the warm modules
    shards = mod.shards(tier, seed)
    total = ShardResult()
    workers = workers or NWORKERS
    ctx = multiprocessing.get_context("fork")
    crumbdir = tempfile.mkdtemp(prefix="xoverif-crumbs-")
    pending = list(enumerate(shards))
    pending.reverse()
    running = {}  # sentinel -> (proc, conn, idx, shard, crumb, started)
    try:
        while pending or running:
            while pending and len(running) < workers:
                idx, shard = pending.pop()
                rconn, wconn = ctx.Pipe(duplex=False)
                crumb = os.path.join(crumbdir, "c%d" % idx)
                p = ctx.Process(target=_child, args=(wconn, crumb, (modname, shard, tier, seed)))
                p.start()
                wconn.close()
                running[p.sentinel] = (p, rconn, idx, shard, crumb, time.time())
            ready = mpwait([v[1] for v in running.values()] + list(running.keys()), timeout=5)
            now = time.time()
            for sent, (p, rconn, idx, shard, crumb, started) in list(running.items()):
                got = None
                if rconn in ready or sent in ready or not p.is_alive():
                    try:
                        if rconn.poll(0.2 if p.is_alive() else 0):
                            got = rconn.recv()
                    except (EOFError, OSError):
                        got = None
                    if got is None and p.is_alive() and sent not in ready:
                        continue
                    p.join(10)
                    if got is None:
                        crumbtxt = ""
                        try:
                            crumbtxt = open(crumb).read()
                        except OSError:
                            pass
                        got = ShardResult()
                        if hasattr(mod, "on_crash"):
                            mod.on_crash(got, shard, p.exitcode, crumbtxt)
                        else:
                            got.notes.append("HARNESS-ERROR: worker for shard %s died with exit code %r (%s)" % (str(shard)[:200], p.exitcode, crumbtxt[:300]))
                    total.merge(got)
                    rconn.close()
                    del running[sent]
                elif now - started > SHARD_TIMEOUT:
                    p.kill()
                    p.join(10)
                    total.capped = True
                    total.notes.append("HARNESS-TIMEOUT: shard %s stopped after %d s" % (str(shard)[:200], SHARD_TIMEOUT))
                    rconn.close()
                    del running[sent]
    finally:
        for p, rconn, *_ in running.values():
            p.kill()
        shutil.rmtree(crumbdir, ignore_errors=True)
    if hasattr(mod, "post"):
        mod.post(total, tier, seed)
    return finish(mod, total, tier, seed, time.time() - t0)


def finish(mod, total, tier, seed, wall):
    pid = mod.PID
    findings = load_findings()
    harness_errors = [n for n in total.notes if n.startswith("HARNESS")]
    known = collections.OrderedDict()
    fresh = collections.OrderedDict()
    for v in total.violations:
        f = match_finding(pid, v, findings)
        if f is not None:
            known.setdefault(f["id"], [f, 0])[1] += 1
        else:
            key = (v["oracle"], v["failure"])
            fresh.setdefault(key, []).append(v)
    for fid, (f, n) in known.items():
        print("KNOWN-FINDING: property=%s %s [%s; %d cases]" % (pid, f["what"], fid, n))
    # vacuity guards declared by the check
    desc = mod.describe(tier)
    for kind in desc.get("must_fire", []):
        if total.events.get(kind, 0) == 0 and total.oracles.get(kind, 0) == 0:
            harness_errors.append("HARNESS-VACUOUS: %s never exercised" % kind)
    rc = 0
    nviol = 0
    rdir = os.path.join(VERIF, "replays", pid)
    for key, vs in fresh.items():
        vs.sort(key=lambda v: len(json.dumps(v["case"], sort_keys=True)))
        v = vs[0]
        nviol += len(vs)
        os.makedirs(rdir, exist_ok=True)
        body = {"property": pid, "module": mod.__name__.split(".")[-1], "violation": v, "same_signature_cases": len(vs)}
        dig = hashlib.sha1(json.dumps(body, sort_keys=True).encode()).hexdigest()[:12]
        path = os.path.join(rdir, dig + ".json")
        with open(path, "w") as f:
            json.dump(body, f, indent=1, sort_keys=True)
        if rc < 40:
            print("VIOLATION property=%s replay=%s  # %s / %s : %s" % (pid, path, v["oracle"], v["failure"], v["detail"][:300].replace("\n", " ")))
        rc += 1
    for n in harness_errors:
        print(n)
    cov = {
        "states": total.states,
        "transitions": total.transitions,
        "traces_validated_against_impl": total.transitions,
        "samples": total.samples or [{"note": "no sample recorded"}],
        "evaluations": total.transitions,
        "distinct_nontrivial": total.nontrivial,
        "rule": desc.get("rule", ""),
        "exhaustive": (not total.capped) and not harness_errors,
        "initial_cases": total.cases,
        "max_depth": total.max_depth,
        "per_event": dict(total.events),
        "per_oracle_comparisons": dict(total.oracles),
        "distinct_outcomes": len(total.outcomes),
        "outcomes": dict(total.outcomes.most_common(40)),
        "skipped": dict(total.skipped),
        "bounds": desc.get("bounds", {}),
        "known_findings_hit": {fid: n for fid, (f, n) in known.items()},
        "violation_signatures": rc,
        "harness_errors": harness_errors[:5],
        "notes": [n for n in total.notes if not n.startswith("HARNESS")][:40],
    }
    ev = {
        "property_id": pid,
        "tier": tier,
        "seed": seed,
        "level": "model_checking",
        "coverage": cov,
        "assumptions": desc.get("assumptions", []),
        "wall_s": round(wall, 2),
        "violations": nviol,
    }
    os.makedirs(os.path.join(VERIF, "evidence"), exist_ok=True)
    with open(os.path.join(VERIF, "evidence", pid + ".json"), "w") as f:
        json.dump(ev, f, indent=1, sort_keys=True)
    print(
        "%s tier=%s seed=%d states=%d transitions=%d cases=%d outcomes=%d violations=%d known=%d wall=%.1fs"
        % (pid, tier, seed, total.states, total.transitions, total.cases, len(total.outcomes), nviol, sum(n for _, n in known.values()), wall)
    )
    if rc:
        return 1  # a violation was exhibited (harness problems, if any, are printed above and recorded in the evidence)
    if harness_errors:
        return 2
    return 0
