"""Placements: where an object lands (DESIGN.md 1.4).  Harness subclasses of the CPU buffers only
*record* allocate/free/grow calls and delegate; nothing inside /repo is instrumented."""
import numpy as np

_ctxs = {}


def ctx(i=0):
    """a few long-lived serial CPU contexts (index 0 is 'the' context, 1.. are 'other' contexts)"""
    import xobjects as xo

    if i not in _ctxs:
        _ctxs[i] = xo.ContextCpu()
    return _ctxs[i]


def _mk_traced():
    from xobjects.context_cpu import BufferNumpy, BufferByteArray

    def wrap(base):
        class Traced(base):
            def __init__(self, *a, **k):
                self.log = []
                base.__init__(self, *a, **k)

            def allocate(self, size, align=True):
                off = base.allocate(self, size, align=align)
                self.log.append(("alloc", int(off), int(size)))
                return off

            def free(self, offset, size):
                self.log.append(("free", int(offset), int(size)))
                return base.free(self, offset, size)

            def grow(self, capacity):
                self.log.append(("grow", int(capacity)))
                return base.grow(self, capacity)

        Traced.__name__ = "Traced" + base.__name__
        return Traced

    return {"np": wrap(BufferNumpy), "ba": wrap(BufferByteArray)}


_traced = None


def traced(kind="np", capacity=0, context=None, default_alignment=None, grow_step=None):
    global _traced
    if _traced is None:
        _traced = _mk_traced()
    return _traced[kind](capacity=capacity, context=context or ctx(0), default_alignment=default_alignment, grow_step=grow_step)


def poison(n, salt=0):
    """deterministic non-zero garbage"""
    if n > 4096:  # the same bytes, computed with numpy
        return (((np.arange(n, dtype=np.int64) * 73 + salt * 29 + 0xA5) % 251) + 1).astype("u1").tobytes()
    return bytes(((i * 73 + salt * 29 + 0xA5) % 251) + 1 for i in range(n))


def whole(buf):
    return bytes(buf.to_bytearray(0, buf.capacity)) if buf.capacity else b""


class Placed:
    """result of applying a placement recipe"""

    def __init__(self, kw, buf=None, expect_off=None, neighbours=(), note=""):
        self.kw = kw  # constructor keyword arguments
        self.buf = buf  # traced buffer (None: the library makes one)
        self.expect_off = expect_off
        self.neighbours = list(neighbours)  # [(off, size, bytes)] live neighbours with known content
        self.note = note


PLACEMENTS = ["default", "ctx", "cap0", "hole", "dirtyhole", "dirtyhole2", "explicit", "al64", "al2", "ba-hole", "ba-cap0", "grown", "dirtybig", "dirtybig2"]


def place(name, size, salt=0):
    """Build the environment for placement `name` for an object needing `size` bytes."""
    if name == "default":
        return Placed({})
    if name == "ctx":
        return Placed(dict(_context=ctx(0)))
    if name in ("cap0", "ba-cap0"):
        b = traced("np" if name == "cap0" else "ba", 0)
        return Placed(dict(_buffer=b), b)
    if name in ("hole", "dirtyhole", "dirtyhole2", "ba-hole", "explicit", "explicit-i8", "explicit-al16"):
        kind = "ba" if name.startswith("ba") else "np"
        pre, post = 13, 5
        # explicit-al16: the buffer aligns what IT hands out to 16 bytes; the caller's offset (13) is the caller's business
        b = traced(kind, pre + size + post, default_alignment=16 if name == "explicit-al16" else 1)
        a = b.allocate(pre, align=False)
        h = b.allocate(size, align=False)
        c = b.allocate(post, align=False)
        assert (a, h, c) == (0, pre, pre + size)
        # dirtyhole2 is the bytewise complement of dirtyhole: a write of the byte already there is still seen
        comp = (lambda d: bytes(255 - x for x in d)) if name == "dirtyhole2" else (lambda d: d)
        pa, pc = comp(poison(pre, salt + 1)), comp(poison(post, salt + 2))
        b.update_from_buffer(a, pa)
        b.update_from_buffer(c, pc)
        if name in ("dirtyhole", "dirtyhole2", "ba-hole"):
            b.update_from_buffer(h, comp(poison(size, salt + 3)))
        nb = [(a, pre, pa), (c, post, pc)]
        if name in ("explicit", "explicit-i8", "explicit-al16"):
            b.log.clear()
            # explicit-i8: the offset is given as a narrow numpy integer (offset + field offsets leave its range)
            return Placed(dict(_buffer=b, _offset=np.int8(h) if name == "explicit-i8" else h), b, h, nb)
        b.free(h, size)
        b.log.clear()
        return Placed(dict(_buffer=b, _offset="packed"), b, h, nb)
    if name in ("al64", "al2"):
        al = 64 if name == "al64" else 2
        b = traced("np", 3 + 2 * al + size, default_alignment=al)
        a = b.allocate(3, align=False)
        pa = poison(3, salt + 1)
        b.update_from_buffer(a, pa)
        b.log.clear()
        return Placed(dict(_buffer=b, _offset="aligned"), b, al if al > 3 else 4, [(a, 3, pa)])
    if name in ("dirtybig", "dirtybig2"):
        # a large, previously used and freed region: the object lands at its start, garbage follows it
        pre, big, post = 13, max(256, 2 * size + 64), 5
        comp = (lambda d: bytes(255 - x for x in d)) if name == "dirtybig2" else (lambda d: d)
        b = traced("np", pre + big + post, default_alignment=1)
        a = b.allocate(pre)
        h = b.allocate(big)
        c = b.allocate(post)
        pa, pc = comp(poison(pre, salt + 1)), comp(poison(post, salt + 2))
        b.update_from_buffer(a, pa)
        b.update_from_buffer(c, pc)
        b.update_from_buffer(h, comp(poison(big, salt + 3)))
        b.free(h, big)
        b.log.clear()
        return Placed(dict(_buffer=b, _offset="packed"), b, h, [(a, pre, pa), (c, post, pc)])
    if name == "al16-hole":
        # a buffer aligned to 16 bytes with a freed hole between two live neighbours; the hole starts at 13 and is two bytes
        # longer than the object: large enough for it as such, too small once its start is rounded up to 16
        pre, post = 13, 5
        b = traced("np", pre + size + 2 + post, default_alignment=16)
        a = b.allocate(pre, align=False)
        h = b.allocate(size + 2, align=False)
        c = b.allocate(post, align=False)
        pa, pc = poison(pre, salt + 1), poison(post, salt + 2)
        b.update_from_buffer(a, pa)
        b.update_from_buffer(c, pc)
        b.update_from_buffer(h, poison(size + 2, salt + 3))
        b.free(h, size + 2)
        b.log.clear()
        return Placed(dict(_buffer=b), b, None, [(a, pre, pa), (c, post, pc)])
    if name == "grown16":
        # as "grown", in a buffer whose regions are aligned to 16 bytes: every allocation after an object whose size is
        # an odd number of slots is preceded by padding
        b = traced("np", 16, default_alignment=16, grow_step=8)
        a = b.allocate(11, align=False)
        pa = poison(11, salt + 1)
        b.update_from_buffer(a, pa)
        b.log.clear()
        return Placed(dict(_buffer=b), b, None, [(a, 11, pa)])
    if name == "grown":
        # small buffer with a live neighbour; the object does not fit, the buffer grows (relocation) during allocate
        b = traced("np", 16, default_alignment=8, grow_step=8)
        a = b.allocate(11)
        pa = poison(11, salt + 1)
        b.update_from_buffer(a, pa)
        b.log.clear()
        return Placed(dict(_buffer=b), b, None, [(a, 11, pa)])
    raise ValueError(name)


def check_neighbours(pl, buf):
    """live neighbours still hold their bytes"""
    bad = []
    for off, size, data in pl.neighbours:
        got = bytes(buf.to_bytearray(off, size))
        if got != data:
            bad.append((off, size))
    return bad
