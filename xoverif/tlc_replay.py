"""C12, second formulation: the TLA+ specification tla/XAlloc.tla is model checked by TLC (invariants on the
specification), its complete labelled state graph is dumped, and EVERY edge of that graph is replayed on the real
XBuffer (path from the initial state along a BFS spanning tree, then the edge), comparing the returned offset,
capacity, free set and live set with the successor node (model -> code conformance, to fixpoint)."""
import collections
import os
import re
import shutil
import subprocess
import tempfile

from . import common

TLA = os.path.join(common.VERIF, "tla", "XAlloc.tla")


def configs(tier):
    out = []
    if tier == "quick":
        return [dict(MaxCap=16, InitCap=8, Sizes=(1, 3, 8), Align=4, GrowStep=0, MaxLive=2, GrowAmounts=(8,)),
                dict(MaxCap=16, InitCap=0, Sizes=(1, 3, 8), Align=1, GrowStep=8, MaxLive=2, GrowAmounts=(8,)),
                dict(MaxCap=12, InitCap=4, Sizes=(1, 2, 3), Align=2, GrowStep=1, MaxLive=2, GrowAmounts=(1,))]
    for align in (1, 4):
        for gs in (0, 8):
            for ic in (0, 8):
                out.append(dict(MaxCap=16, InitCap=ic, Sizes=(1, 3, 8), Align=align, GrowStep=gs, MaxLive=3, GrowAmounts=(8,)))
    out.append(dict(MaxCap=24, InitCap=8, Sizes=(1, 5, 8), Align=8, GrowStep=0, MaxLive=2, GrowAmounts=(1, 8)))
    out.append(dict(MaxCap=12, InitCap=4, Sizes=(1, 2, 3), Align=2, GrowStep=1, MaxLive=3, GrowAmounts=(1,)))
    return out


def cfg_text(c):
    s = lambda xs: "{" + ", ".join(str(x) for x in xs) + "}"
    return "\n".join(["CONSTANTS", "  MaxCap = %d" % c["MaxCap"], "  InitCap = %d" % c["InitCap"], "  Sizes = %s" % s(c["Sizes"]), "  Align = %d" % c["Align"],
                      "  GrowStep = %d" % c["GrowStep"], "  MaxLive = %d" % c["MaxLive"], "  GrowAmounts = %s" % s(c["GrowAmounts"]), "INIT Init", "NEXT Next", "INVARIANT Inv", ""])


def parse_set(txt):
    txt = txt.strip()
    if txt == "{}":
        return frozenset()
    m = re.fullmatch(r"(-?\d+)\.\.(-?\d+)", txt)
    if m:
        return frozenset(range(int(m.group(1)), int(m.group(2)) + 1))
    assert txt[0] == "{" and txt[-1] == "}", txt
    return frozenset(int(x) for x in txt[1:-1].split(","))


def parse_state(label):
    """label: '/\\ live = {...}\n/\\ cap = 8\n/\\ free = ...\n/\\ lost = ...' (escaped newlines already decoded).
    TLC wraps long values over several lines: a conjunct extends to the next '/\\ ' marker."""
    st = {}
    for m in re.finditer(r"/\\ (\w+) = (.*?)(?=\n/\\ |\Z)", label, flags=re.S):
        k, v = m.group(1), " ".join(m.group(2).split())
        if k == "cap":
            st["cap"] = int(v)
        elif k in ("free", "lost"):
            st[k] = parse_set(v)
        elif k == "live":
            recs = re.findall(r"\[([^\]]*)\]", v)
            live = set()
            for r in recs:
                d = dict((a.strip(), int(b)) for a, b in (p.split("|->") for p in r.split(",")))
                live.add((d["off"], d["size"], d["al"]))
            st["live"] = frozenset(live)
    return st


def run_tlc(c, workdir):
    shutil.copy(TLA, os.path.join(workdir, "XAlloc.tla"))
    with open(os.path.join(workdir, "XAlloc.cfg"), "w") as f:
        f.write(cfg_text(c))
    cmd = ["tlc", "-workers", "1", "-noGenerateSpecTE", "-metadir", os.path.join(workdir, "meta"), "-deadlock", "-dump", "dot,actionlabels", os.path.join(workdir, "g"), "XAlloc"]

    def lift():
        import resource

        hard = resource.getrlimit(resource.RLIMIT_AS)[1]
        resource.setrlimit(resource.RLIMIT_AS, (hard, hard))  # the JVM reserves a large address space

    jtmp = os.path.join(workdir, "jtmp")  # the JVM's scratch files stay inside the work directory (removed with it), not in /tmp
    os.makedirs(jtmp, exist_ok=True)
    env = dict(os.environ, JAVA_TOOL_OPTIONS=(os.environ.get("JAVA_TOOL_OPTIONS", "") + " -Djava.io.tmpdir=" + jtmp).strip())
    p = subprocess.run(cmd, cwd=workdir, stdout=subprocess.PIPE, stderr=subprocess.STDOUT, timeout=3000, preexec_fn=lift, env=env)
    out = p.stdout.decode("utf8", "replace")
    ok = "Model checking completed. No error has been found." in out
    m = re.search(r"(\d+) states generated, (\d+) distinct states found", out)
    return ok, out, (int(m.group(1)), int(m.group(2))) if m else (0, 0)


def parse_dot(path):
    nodes, edges, init = {}, [], None
    node_re = re.compile(r'^(-?\d+) \[label="(.*?)"(,style = filled)?')
    edge_re = re.compile(r'^(-?\d+) -> (-?\d+) \[label="(.*?)"')
    with open(path) as f:
        for line in f:
            m = edge_re.match(line)
            if m:
                edges.append((m.group(1), m.group(2), m.group(3)))
                continue
            m = node_re.match(line)
            if m:
                lab = m.group(2).replace("\\n", "\n").replace("\\\\", "\\")
                nodes[m.group(1)] = parse_state(lab)
                if m.group(3):
                    init = m.group(1)
    return nodes, edges, init


def parse_action(label, su=None, sv=None):
    m = re.match(r"Alloc\((\d+),\s*(TRUE|FALSE)\)", label)
    if m:
        return ("alloc", int(m.group(1)), m.group(2) == "TRUE")
    m = re.match(r"Grow\((\d+)\)", label)
    if m:
        return ("grow", int(m.group(1)))
    m = re.match(r"Free\(\[(.*)\]\)", label)
    if m:
        d = dict((a.strip(), int(b)) for a, b in (p.split("|->") for p in m.group(1).split(",")))
        return ("free", d["off"], d["size"])
    if su is not None and sv is not None:
        # TLC labels an existential over a state-dependent set (\E r \in live : Free(r)) with the enclosing action only:
        # the freed record is the one that left `live`
        gone = su["live"] - sv["live"]
        if len(gone) == 1 and not (sv["live"] - su["live"]) and su["cap"] == sv["cap"]:
            off, size, al = next(iter(gone))
            return ("free", off, size)
    raise ValueError(label)


def new_buffer(c):
    import xobjects as xo
    from xobjects.context_cpu import BufferNumpy

    return BufferNumpy(capacity=c["InitCap"], context=xo.ContextCpu(), default_alignment=c["Align"], grow_step=c["GrowStep"] or None)


def do(b, act):
    if act[0] == "alloc":
        return b.allocate(act[1], align=act[2])
    if act[0] == "grow":
        return b.grow(act[1])
    return b.free(act[1], act[2])


def impl_free_set(b):
    s = set()
    for ch in b.chunks:
        s.update(range(ch.start, ch.end))
    return frozenset(s)


def first_fit_in(free, size, al):
    """(run start, offset) of the lowest maximal run of `free` (a set of byte addresses) that holds `size` bytes at alignment `al`"""
    for st in sorted(x for x in free if x - 1 not in free):
        en = st
        while en in free:
            en += 1
        off = -(-st // al) * al
        if off + size <= en:
            return st, off
    return None


def replay_graph(c, res, want):
    """returns list of (oracle, failure, detail, case)"""
    work = tempfile.mkdtemp(prefix="xoverif-tlc-", dir=os.getcwd())
    probs = []
    try:
        ok, out, (gen, distinct) = run_tlc(c, work)
        if not ok:
            res.notes.append("HARNESS-ERROR: TLC did not complete cleanly on the specification (spec invariant violated or tool failure):\n" + out[-1500:])
            return probs
        nodes, edges, init = parse_dot(os.path.join(work, "g.dot"))
        for nid, stt in nodes.items():
            livebytes = set()
            for off, size, al in stt["live"]:
                livebytes.update(range(off, off + size))
            if len(stt) != 4 or (livebytes | stt["free"] | stt["lost"]) != set(range(stt["cap"])):
                res.notes.append("HARNESS-ERROR: state %s of the dumped graph was not parsed completely: %r" % (nid, stt))
                return probs
        if init is None or len(nodes) != distinct:
            res.notes.append("HARNESS-ERROR: state graph dump incomplete: %d nodes parsed, TLC reports %d distinct states" % (len(nodes), distinct))
            return probs
        # BFS spanning tree
        succ = collections.defaultdict(list)
        for u, v, lab in edges:
            succ[u].append((v, lab))
        path = {init: []}
        dq = collections.deque([init])
        depth = 0
        while dq:
            u = dq.popleft()
            for v, lab in succ[u]:
                if v not in path:
                    path[v] = path[u] + [parse_action(lab, nodes[u], nodes[v])]
                    depth = max(depth, len(path[v]))
                    dq.append(v)
        res.states += len(nodes)
        res.max_depth = max(res.max_depth, depth)
        sig = set()
        seen_edges = set()
        for u, v, lab in edges:
            if (u, v, lab) in seen_edges:
                continue
            seen_edges.add((u, v, lab))
            act = parse_action(lab, nodes[u], nodes[v])
            b = new_buffer(c)
            for a in path[u]:
                do(b, a)
            res.transitions += 1
            res.events["tla-" + act[0]] += 1
            source = nodes[u]
            if b.capacity != source["cap"] or impl_free_set(b) != source["free"]:
                # The specification's growth *amount* (GrowBy) mirrors one policy; the property leaves the amount open.  A path on
                # which the implementation grew by another amount (judged on that edge, below) does not reach this model state.
                res.outcomes["tla-skip:source-state-needs-the-specification's-growth-amount"] += 1
                continue
            target = nodes[v]
            failure = None
            try:
                r = do(b, act)
            except Exception as e:
                failure = ("C12.model-conformance", "raises:" + common.exc_failure(e), "edge %s from model state %r: %r" % (lab, nodes[u], e))
            other_amount = False
            if failure is None and b.capacity != target["cap"]:
                if b.capacity < source["cap"]:
                    failure = ("C12.capacity-monotone", "tla-capacity-shrinks", "edge %s: capacity %d after %d" % (lab, b.capacity, source["cap"]))
                elif target["cap"] == source["cap"]:
                    failure = ("C12.grow-only-if-needed", "tla-capacity", "edge %s: capacity %d, specification %d (no growth needed)" % (lab, b.capacity, target["cap"]))
                elif b.capacity == source["cap"]:
                    failure = ("C12.model-conformance", "tla-no-growth", "edge %s: capacity stays %d, specification grows to %d" % (lab, b.capacity, target["cap"]))
                else:
                    other_amount = True  # grew when the specification grows, by another amount: judged against first fit in the capacity it chose
            if failure is None and other_amount:
                free1 = set(source["free"]) | set(range(source["cap"], b.capacity))
                if act[0] == "alloc":
                    al = c["Align"] if act[2] else 1
                    ff = first_fit_in(free1, act[1], al)
                    if ff is None or int(r) != ff[1]:
                        failure = ("C12.first-fit", "tla-placement", "edge %s: implementation returned %r after growing to %d, first fit there is %r (model state %r)" % (lab, r, b.capacity, ff, nodes[u]))
                    else:
                        free1 -= set(range(ff[0], ff[1] + act[1]))
                if failure is None and impl_free_set(b) != free1:
                    failure = ("C12.accounting", "tla-free-set", "edge %s: free bytes %r, expected %r in capacity %d" % (lab, sorted(impl_free_set(b)), sorted(free1), b.capacity))
                if failure is None and b.get_free() != len(free1):
                    failure = ("C12.accounting", "tla-free-total", "edge %s: get_free()=%d, expected %d" % (lab, b.get_free(), len(free1)))
                if failure is None:
                    res.outcomes["tla-ok:%s:other-growth-amount" % act[0]] += 1
                    continue
            if failure is None:
                if act[0] == "alloc":
                    new = target["live"] - nodes[u]["live"]
                    exp = sorted(new)[0][0] if new else None
                    if exp is None or int(r) != exp:
                        failure = ("C12.first-fit", "tla-placement", "edge %s: implementation returned %r, specification places it at %r (model state %r)" % (lab, r, exp, nodes[u]))
                if failure is None and impl_free_set(b) != target["free"]:
                    failure = ("C12.accounting", "tla-free-set", "edge %s: free bytes %r, specification %r" % (lab, sorted(impl_free_set(b)), sorted(target["free"])))
                if failure is None and b.get_free() != len(target["free"]):
                    failure = ("C12.accounting", "tla-free-total", "edge %s: get_free()=%d, specification %d" % (lab, b.get_free(), len(target["free"])))
            if failure:
                res.outcomes["tla-bad:" + failure[1].split(":")[0]] += 1
                if failure[0].startswith(want) and (failure[0], failure[1]) not in sig:
                    sig.add((failure[0], failure[1]))
                    probs.append(failure + (dict(tla_config={k: (list(x) if isinstance(x, tuple) else x) for k, x in c.items()}, path=[list(a) for a in path[u]], edge=lab, action=list(act)),))
            else:
                res.outcomes["tla-ok:" + act[0]] += 1
        res.notes.append("TLC: %d states generated, %d distinct, depth %d; %d edges replayed on XBuffer (config %r)" % (gen, distinct, depth, len(seen_edges), c))
    finally:
        shutil.rmtree(work, ignore_errors=True)
    return probs


def replay_case(case):
    c = {k: (tuple(v) if isinstance(v, list) else v) for k, v in case["tla_config"].items()}
    b = new_buffer(c)
    for a in case["path"]:
        do(b, tuple(a))
    act = tuple(case["action"])
    try:
        r = do(b, act)
    except Exception as e:
        return [repr(e)]
    return [("result", r, "capacity", b.capacity, "free", sorted(impl_free_set(b)))]
