import argparse, os, sys
from . import common

MODULES = {
    "C01": "c01", "C02": "c02", "C03": "c03", "C05": "c05", "C06": "c06", "C07": "c07", "C08": "c08", "C09": "c09", "C10": "c10", "C11": "c11", "C04": "alloc_c04", "C12": "alloc_c12", "C13": "c13", "C14": "c14", "C15": "c15", "C16": "c16", "C17": "c17", "C18": "c18", "C19": "c19", "C20": "c20",
}

def main():
    ap = argparse.ArgumentParser(prog="xoverif")
    ap.add_argument("pid")
    ap.add_argument("--tier", default=os.environ.get("VERIF_TIER", "quick"), choices=["quick", "thorough"])
    ap.add_argument("--seed", type=int, default=int(os.environ.get("VERIF_SEED", "0") or 0))
    ap.add_argument("--workers", type=int, default=None)
    a = ap.parse_args()
    mod = MODULES[a.pid]
    sys.exit(common.run_check(mod, a.tier, a.seed, a.workers))

main()
