"""Operations on live xobjects handles driven by AST paths: navigation, assignment, structural snapshots."""
import numpy as np

from . import xt


_INDEX_KIND = [None]


class index_kind:
    """within the block, array indices are given as numpy integers of this kind (index arithmetic must not depend on it)"""

    def __init__(self, kind):
        self.kind = kind

    def __enter__(self):
        _INDEX_KIND[0] = self.kind

    def __exit__(self, *a):
        _INDEX_KIND[0] = None


def key(p):
    if _INDEX_KIND[0] is not None:
        p = tuple(_INDEX_KIND[0](i) for i in p)
    return p if len(p) > 1 else p[0]


def root(t, obj):
    """(type, handle) to navigate from: a stand-alone union reference stands for its target"""
    return t, obj


def nav(t, x, path):
    """follow a value-tree path on a handle; returns (type, handle-or-value)"""
    for p in path:
        k = t[0]
        if k == "U" and hasattr(x, "get") and type(x).__name__ == xt.build(t).__name__:
            x = x.get()
        if p == "*":
            assert k == "R"
            t = t[1]
        elif p == "#":
            assert k == "U"
            names = xt.member_names(t)
            t = t[1][names.index(type(x).__name__)]
        elif isinstance(p, tuple):
            assert k == "A", (k, p)
            x = x[key(p)]
            t = t[1]
        else:
            assert k == "St", (k, p)
            x = getattr(x, p)
            t = dict(t[1])[p]
    return t, x


def assign(t, x, path, value):
    """parent[path[-1]] = value through the public setters (the empty path: whole update of the object itself)"""
    if not path:
        x._update(value)
        return
    pt, px = nav(t, x, path[:-1])
    if pt[0] == "U" and hasattr(px, "get") and type(px).__name__ == xt.build(pt).__name__:
        px = px.get()
    p = path[-1]
    if isinstance(p, tuple):
        px[key(p)] = value
    else:
        setattr(px, p, value)


def size_of(x):
    s = getattr(x, "_size", None)
    if s is None:
        s = x._get_size()
    return int(s)


def snap(t, x, base=0, out=None, path=()):
    """Structural snapshot of a handle and everything reachable: offsets (relative to `base`), sizes, shapes,
    strides, per-item and per-field offsets, reference targets.  Values of leaves are NOT included."""
    if out is None:
        out = {}
    k = t[0]
    if k in ("S", "Str"):
        return out
    if k == "R":
        if x is None:
            out[path] = ("null",)
            return out
        out[path] = ("ref", int(x._offset) - base)
        return snap(t[1], x, base, out, path + ("*",))
    if k == "U":
        if x is not None and hasattr(x, "get") and type(x).__name__ == xt.build(t).__name__:
            out[path + ("slot",)] = (int(x._offset) - base, size_of(x))
            x = x.get()
        if x is None:
            out[path] = ("null",)
            return out
        names = xt.member_names(t)
        i = names.index(type(x).__name__)
        out[path] = ("uref", i, int(x._offset) - base)
        return snap(t[1][i], x, base, out, path + ("#",))
    if k == "St":
        rec = ["struct", int(x._offset) - base, size_of(x), int(x._get_size())]
        for n, ft in t[1]:
            rec.append((n, int(x._get_offset(n)) - base))
        out[path] = tuple(rec)
        for n, ft in t[1]:
            if ft[0] not in ("S", "Str"):
                snap(ft, getattr(x, n), base, out, path + (n,))
        return out
    if k == "A":
        shape = tuple(int(s) for s in x._shape)
        rec = ["array", int(x._offset) - base, size_of(x), int(x._get_size()), shape, tuple(int(s) for s in x._strides), int(len(x))]
        offs = []
        for idx in xt.ndindex(shape):
            offs.append(int(x._get_offset(idx)) - base)
        rec.append(tuple(offs))
        out[path] = tuple(rec)
        if t[1][0] not in ("S", "Str"):
            for idx in xt.ndindex(shape):
                snap(t[1], x[idx if len(idx) > 1 else idx[0]], base, out, path + (idx,))
        return out
    raise ValueError(t)


def handles(t, x, path=(), out=None):
    """every compound handle reachable: list of (path, type, handle)"""
    if out is None:
        out = []
    k = t[0]
    if k in ("S", "Str"):
        return out
    if k == "R":
        if x is not None:
            handles(t[1], x, path + ("*",), out)
        return out
    if k == "U":
        if x is not None and hasattr(x, "get") and type(x).__name__ == xt.build(t).__name__:
            x = x.get()
        if x is not None:
            names = xt.member_names(t)
            i = names.index(type(x).__name__)
            handles(t[1][i], x, path + ("#",), out)
        return out
    out.append((path, t, x))
    if k == "St":
        for n, ft in t[1]:
            if ft[0] not in ("S", "Str"):
                handles(ft, getattr(x, n), path + (n,), out)
    else:
        if t[1][0] not in ("S", "Str"):
            shape = tuple(int(s) for s in x._shape)
            for idx in xt.ndindex(shape):
                handles(t[1], x[idx if len(idx) > 1 else idx[0]], path + (idx,), out)
    return out


def alt_leaf(lt, old, n=0):
    """a different value of the same leaf type that fits the space of `old`"""
    if lt[0] == "S":
        kind = lt[1]
        if kind[0] == "f":
            cands = [float(n) + 7.25, -3.5, 0.0]
        else:
            lo, hi = xt.int_range(kind)
            cands = [(n * 7 + 5) % hi + 1, hi, lo, 0]
        for c in cands:
            if not xt.veq(c, old):
                return c
    # string: same slot capacity: keep the encoded length within the slot-rounded room of the original
    room = xt.slot(len(old.encode("utf8")) + 1) - 1  # bytes available before the mandatory NUL
    cands = ["Z" * room, "y" * max(room - 1, 0), "", "é"[: 1 if room >= 2 else 0] + "q" * max(room - 2, 0)]
    for c in cands:
        if c != old and len(c.encode("utf8")) <= room:
            return c
    return None
