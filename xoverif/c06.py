"""C06: a view rebuilt from (buffer, offset) equals the constructed handle (DESIGN.md 2/C06)."""
import hashlib

import numpy as np

from . import common, cons, hand, hist, place, universe, xt

PID = "C06"
FORMS = ["py", "nd", "xobj-other"]


def describe(tier):
    return dict(
        rule="(a) case system over the whole universe: after construction the view T._from_buffer(buffer, offset) and, recursively, the view of every "
        "nested compound rebuilt from its own (buffer, offset) must agree with the constructor-side handles: value at every index, shape, strides, "
        "size, per-item and per-field offsets. (b) history system on the history sub-universe: after every write of a leaf or whole compound through "
        "the handle, the view or a nested view, both sides are re-read and compared (a write through one is seen through the other).",
        bounds=dict(universe="as C01", history_types=len(universe.rh(tier)), depth="2" if tier == "quick" else "3 (ramp values), 2 (extreme, minimal)", forms=FORMS),
        assumptions=["a stand-alone union reference has no view of its own: _from_buffer yields its target, which is compared with get()"],
        must_fire=["construct", "set"],
    )


def shards(tier, seed):
    ts = universe.universe(tier, "all+3" if tier == "thorough" else "all")
    out = [("cons", c) for c in cons.chunk(ts, 48 if tier == "quick" else 160)]
    vm = ["ramp"] if tier == "quick" else ["ramp", "extreme", "minimal"]
    out += [("hist", t, v, p) for t in universe.rh(tier) for v in vm for p in ("dirtyhole", "cap0")]
    return out[seed % len(out):] + out[: seed % len(out)]


def compare(t, h, res):
    """the C06 oracle on one live handle; returns (oracle, failure, detail) or None"""
    buf = h._buffer
    if t[0] == "U":
        tv = xt.build(t)._from_buffer(buf, h._offset)
        th = h.get()
        if (tv is None) != (th is None):
            return ("C06.value", "null-disagrees", "")
        if th is None:
            return None
        names = xt.member_names(t)
        t = t[1][names.index(type(th).__name__)]
        if type(tv).__name__ != type(th).__name__:
            return ("C06.value", "member-type-disagrees", "%s vs %s" % (type(tv).__name__, type(th).__name__))
        h = th
    try:
        hs = hand.handles(t, h)
    except Exception as e:
        return ("C06.handle", "handle-walk-raises:" + common.exc_failure(e), repr(e))
    for path, ct, ch in hs:
        try:
            cv = xt.build(ct)._from_buffer(ch._buffer, ch._offset)
        except Exception as e:
            return ("C06.view", "from_buffer-raises:" + common.exc_failure(e), "%r %r" % (path, e))
        try:
            a = xt.read(ct, ch)
        except Exception as e:
            return ("C06.handle", "handle-read-raises:" + common.exc_failure(e), "%r %r" % (path, e))
        try:
            b = xt.read(ct, cv)
        except Exception as e:
            return ("C06.view", "view-read-raises:" + common.exc_failure(e), "%r %r" % (path, e))
        res.oracles["value"] += 1
        if not xt.veq(a, b):
            return ("C06.value", "view-value-differs", "at nested %r: first difference %r: %s" % ((path,) + xt.vdiff(a, b)))
        try:
            sa = hand.snap(ct, ch)
            sb = hand.snap(ct, cv)
        except Exception as e:
            return ("C06.structure", "snapshot-raises:" + common.exc_failure(e), "%r %r" % (path, e))
        res.oracles["structure"] += 1
        if sa != sb:
            ks = [k for k in sa if sa.get(k) != sb.get(k)] + [k for k in sb if k not in sa]
            return ("C06.structure", "view-structure-differs", "nested %r, at %r: handle %r view %r" % (path, ks[0], sa.get(ks[0]), sb.get(ks[0])))
        # the typed window (to_nplike) of an array of numbers: same content through handle and view, and both are windows
        # onto the buffer's CURRENT storage (a write through either is seen through the other)
        if ct[0] == "A" and ct[1][0] == "S":
            try:
                wa, wb = ch.to_nplike(), cv.to_nplike()
            except Exception:
                wa = wb = None  # (layouts for which the library offers no window)
            if wa is not None:
                res.oracles["window"] += 1
                if wa.shape != wb.shape or wa.tobytes() != wb.tobytes():
                    return ("C06.value", "typed-window-differs", "nested %r: to_nplike() of the handle and of the view differ" % (path,))
                st = ch._buffer.buffer
                base = np.frombuffer(st, dtype="int8").__array_interface__["data"][0] if not isinstance(st, np.ndarray) else st.__array_interface__["data"][0]
                for who, w in (("handle", wa), ("view", wb)):
                    if w.size and not (base <= w.__array_interface__["data"][0] < base + int(ch._buffer.capacity)):
                        return ("C06.value", "typed-window-not-on-current-storage", "nested %r: the window of the %s does not lie in the buffer's storage (a write through it is not seen)" % (path, who))
        # cached private structure the constructor keeps must equal what the view re-reads
        for attr in ("_shape", "_strides", "_size"):
            if hasattr(ch, attr) != hasattr(cv, attr):
                return ("C06.structure", "attribute-presence:" + attr, "nested %r" % (path,))
            if hasattr(ch, attr):
                va, vb = getattr(ch, attr), getattr(cv, attr)
                va = tuple(int(x) for x in va) if isinstance(va, (list, tuple, np.ndarray)) else (None if va is None else int(va))
                vb = tuple(int(x) for x in vb) if isinstance(vb, (list, tuple, np.ndarray)) else (None if vb is None else int(vb))
                if va != vb:
                    return ("C06.structure", "attribute-differs:" + attr, "nested %r: %r vs %r" % (path, va, vb))
    return None


def judge_hist(s, ev, res):
    # the handle and a view that exist BEFORE the event have both been read in full (so whatever they cache is filled)
    old_view = None
    try:
        xt.read(s.t, s.h)
        hand.snap(s.t, s.h)
        if s.t[0] != "U":
            old_view = hist.view_of(s)
            xt.read(s.t, old_view)
            hand.snap(s.t, old_view)
    except Exception as e:
        res.skipped["pre-read(C01's business):" + common.exc_failure(e)] += 1
        return [], False
    try:
        with common.Watchdog(30):
            hist.apply_event(s, ev)
    except Exception as e:
        res.skipped["event-refused(C10's business):" + common.exc_failure(e)] += 1
        return [], False
    wrong = None
    try:
        got = xt.read(s.t, s.h)
        if not xt.veq(got, s.mv):
            wrong = "post-state-wrong(C10's business)"
    except Exception as e:
        wrong = "post-read(C10's business):" + common.exc_failure(e)
    r = compare(s.t, s.h, res)
    if wrong and r is None:
        # handle and views agree on a value that is not the model's: not this property
        res.skipped[wrong] += 1
        return [], False
    if wrong and r is not None:
        return [common.violation(r[0], r[1], {}, {}, r[2])], False
    if r is None and old_view is not None:
        # the view created before the event must show the same value and structure as the handle
        try:
            gv = xt.read(s.t, old_view)
            if not xt.veq(gv, s.mv):
                r = ("C06.value", "older-view-stale", "a view created before the write reads: first difference at %r: %s" % xt.vdiff(gv, s.mv))
            elif hand.snap(s.t, old_view) != hand.snap(s.t, s.h):
                r = ("C06.structure", "older-view-structure-stale", "")
        except Exception as e:
            r = ("C06.view", "older-view-read-raises:" + common.exc_failure(e), repr(e))
    if r is None and s.t[0] != "U":
        # the handle returned by a copy-construction FROM this state (the source's layout carries its history: spare
        # room left by shortened strings, re-bound references), placed in the same buffer, against its own views
        try:
            cp = xt.build(s.t)(s.h, _buffer=s.h._buffer)
        except Exception as e:
            res.skipped["copy-raises(C09's business):" + common.exc_failure(e)] += 1
            cp = None
        if cp is not None:
            res.events["copy-of-state"] += 1
            r = compare(s.t, cp, res)
            if r:
                r = (r[0], "copy:" + r[1], "copy-constructed from the state reached: " + r[2])
    if r:
        res.outcomes[r[1].split(":")[0]] += 1
        return [common.violation(r[0], r[1], {}, {}, r[2])], False
    res.outcomes["ok:" + ev[0] + ":" + (ev[1] if len(ev) > 1 else "")] += 1
    return [], True


OPTS = dict(vias=("h", "v", "n"), vals=1, compounds=True, grow=True, deep_leaves=4, resplit=True)


def run_shard(shard, tier, seed):
    res = common.ShardResult()
    if shard[0] == "cons":
        seen = set()

        def pf(t, form):
            # ghosthole: the place has been used before by objects of the same type and size laid out otherwise
            return (["dirtyhole", "grown"] if form == "py" else ["dirtyhole"]) + (["ghosthole"] if form in ("py", "xobj-other") and xt.is_dyn(t) else [])

        for t, vmode, v, form, pname in cons.enumerate_cases(shard[1], cons.VMODES, FORMS, pf):
            res.cases += 1
            try:
                o = cons.execute(t, v, form, pname, seed)
            except Exception as e:
                res.skipped["prepare:" + common.exc_failure(e)] += 1
                continue
            if o.error is not None:
                res.skipped["construct-raises(C01's business):" + common.exc_failure(o.error)] += 1
                continue
            res.transitions += 1
            res.events["construct"] += 1
            r = compare(t, o.obj, res)
            if r:
                res.outcomes[r[1].split(":")[0]] += 1
                res.violations.append(common.violation(r[0], r[1], cons.feats(t, vmode, form, pname), cons.case_id(t, vmode, form, pname), r[2]))
            else:
                res.outcomes["ok:construct"] += 1
                seen.add(hashlib.sha1(repr(t).encode() + bytes(o.obj._buffer.to_bytearray(o.obj._offset, hand.size_of(o.obj)))).digest())
        res.states = res.nontrivial = len(seen)
        res.max_depth = max(res.max_depth, 1)
    else:
        _, t, vmode, pname = shard
        seen = hist.explore(t, vmode, pname, 2 if tier == "quick" or vmode != "ramp" else 3, OPTS, judge_hist, res, seed)
        if seen:
            res.states = res.nontrivial = len(seen)
            if len(res.samples) < 1:
                res.sample(dict(type=xt.show(t), vmode=vmode, placement=pname, history_states=len(seen)))
    return res


def replay(case):
    if "ev_idx" in case:
        return hist.replay_case(case, OPTS, judge_hist)
    t = xt.retuple(case["type"])
    v = xt.gen(t, case["vmode"])
    o = cons.execute(t, v, case["form"], case["place"], 0)
    if o.error is not None:
        return []
    r = compare(t, o.obj, common.ShardResult())
    return [r] if r else []
