"""C16: vectorised kernel blocks run once per index on every target (DESIGN.md 2/C16).

All well-formed kernel skeletons over the annotation vocabulary are generated, compiled in batches and RUN on every
target: cpu_serial / cpu_openmp through the real ContextCpu, cuda and opencl through the real ContextCupy /
ContextPyopencl build_kernels and kernel __call__ code with the device modules replaced by host builds of the real
specialised text (launch geometry is therefore the contexts' own)."""
import ctypes
import itertools
import os
import re
import shutil
import subprocess
import tempfile
import types
from pathlib import Path

import numpy as np

from . import cnative, common

PID = "C16"
TARGETS = ["cpu_serial", "cpu_openmp", "opencl", "cuda"]
XSETS = [("cpu_serial",), ("cpu_openmp",), ("opencl",), ("cuda",), ("cpu_serial", "cpu_openmp"), ("opencl", "cuda"), ("cpu_serial", "cpu_openmp", "opencl", "cuda")]
LIMITS = ["n", "n-1", "n/2", "(n+1)/3", "n-n%2"]  # never above n: the launch provides n work-items
SMALL_N = [0, 1, 2, 3, 5, 8, 9]
BIG_N = [255, 256, 257, 513]
GUARD = 8


GEOMETRY_HISTORY = [("fixed", 4), ("fixed", 13), ("fixed", 0), ("fixed", 5), ("name", 3), ("fixed", 1), ("name", 9)]
GEOMETRY_HISTORY_BIG = [("fixed", 257), ("fixed", 3), ("name", 513), ("fixed", 256)]


def describe(tier):
    return dict(
        rule="all well-formed kernel skeletons: file-scope prefix of 0-2 lines from {plain text, #define //only_for_context X, //include_file f for_context X, "
        "/*gpufun*/ helper with /*gpuglmem*/ and /*restrict*/ parameters}; one /*gpukern*/ function with 1-2 vectorised blocks (both opening spellings used in "
        "the repository, distinct loop variables), bodies of 1-2 lines from {counter increment, marker store restricted by //only_for_context X, "
        "helper call}; block limits n and the expressions n-1, n/2, (n+1)/3, n-n%2; X over the 4 singletons, both CPU, both GPU, all four. Every skeleton is built and run on all targets: serial, OpenMP(2), OpenMP(auto) "
        "through ContextCpu; cuda through the real ContextCupy (block sizes 1, 2, 4 and default 256) and opencl through the real ContextPyopencl, devices "
        "replaced by host builds of the real specialised text. n in {0,1,2,3,5,8,9} (+ {255,256,257,513} with block 256). Oracle: each block's counter is "
        "exactly its increment count on [0,n) and 0 on a guard band beyond; restricted lines, defines and includes are active exactly on the named targets; "
        "unannotated lines appear verbatim and in order in every specialised text; all targets agree. Second build: the skeletons of a shard that include a file are built again in the same process from another folder whose included files have the same names and another content. Launch-geometry histories: on every built kernel "
        "the thread count is then changed with set_n_threads through fixed numbers that grow and shrink (4, 13, 0, 5, 1; 257, 3, 256 with block 256) and back to "
        "the argument name, with a call and the same oracle after every change.",
        bounds=dict(skeletons=len(list(skeletons(tier))), n=SMALL_N + BIG_N, cuda_block_sizes=[1, 2, 4, 256], guard_band=GUARD),
        assumptions=["statements outside vectorised blocks run once per work-item on GPU targets by design: only idempotent statements are placed there and they are compared for n >= 1",
                     "device compilers and schedulers are replaced by clang -x cl / g++ host builds driven sequentially"],
        must_fire=["cpu_serial", "cpu_openmp", "cpu_openmp_auto", "cuda", "opencl", "passthrough", "set_n_threads", "second-build"],
    )


# --------------------------------------------------------------------------
# skeletons


def xs(X):
    return " ".join(X)


def skeletons(tier):
    """yield skeleton specs (dicts); deterministic order, simplest first"""
    prefixes = [[], [("plain",)], [("helper",)], [("plainff",)]]
    prefixes += [[("define", X)] for X in XSETS]
    prefixes += [[("include", X)] for X in XSETS]
    prefixes += [[("define", XSETS[i]), ("include", XSETS[(i + 3) % 7])] for i in range(7)]
    prefixes += [[("helper",), ("define", XSETS[5])], [("plain",), ("include", XSETS[4])], [("helper",), ("plain",)]]
    # two include directives on CONSECUTIVE lines (the usual "cpu implementation / gpu implementation" pair and others)
    prefixes += [[("include", XSETS[i]), ("include2", XSETS[(i + 2) % 7])] for i in (0, 4, 5, 6)]
    body1 = [[("inc",)], [("inc",), ("inc",)]]
    body1 += [[("inc",), ("mark", X)] for X in XSETS]
    body1 += [[("mark", XSETS[2]), ("inc",)], [("mark", XSETS[5]), ("mark", XSETS[0])]]
    bodyh = [[("bump",)], [("bump",), ("inc",)], [("mark", XSETS[3]), ("bump",)]]
    pair = [[("inc",)], [("inc",), ("mark", XSETS[4])], [("mark", XSETS[3]), ("inc",)], [("inc",), ("inc",)]]
    quick = tier == "quick"
    sid = 0
    for pi, pre in enumerate(prefixes):
        has_helper = any(p[0] == "helper" for p in pre)
        bodies = body1 + (bodyh if has_helper else [])
        # one block
        for sp in ("A", "B"):
            for bi, b in enumerate(bodies):
                if quick and (pi + bi) % 2 and pi > 2:
                    continue
                sid += 1
                yield dict(id=sid, prefix=pre, blocks=[dict(spell=sp, var="ii", body=b, ctr=0)])
            # the limit of a block is any whitespace-free expression, not only an identifier
            if pi < 3 or not quick:
                for lim in LIMITS[1:]:
                    for b in bodies[:2]:
                        sid += 1
                        yield dict(id=sid, prefix=pre, blocks=[dict(spell=sp, var="ii", body=b, ctr=0, limit=lim)])
        # two blocks
        for sp1, sp2 in itertools.product("AB", repeat=2):
            for same in (False,):
                # two blocks over the SAME variable are not well-formed: on the GPU targets every block declares its
                # variable at function scope (`int ii;`), so the second block is a redeclaration (see DESIGN.md, corrections)
                for b1, b2 in itertools.product(pair + (bodyh[:1] if has_helper else []), repeat=2):
                    if quick and (pi % 3 or (len(b1) + len(b2)) % 2):
                        continue
                    sid += 1
                    yield dict(id=sid, prefix=pre, blocks=[dict(spell=sp1, var="ii", body=b1, ctr=0), dict(spell=sp2, var="ii" if same else "jj", body=b2, ctr=1)])


C_WORDS = set("auto break case char const continue default do double else enum extern float for goto if inline int long register restrict return short signed sizeof static struct switch typedef union unsigned void volatile while "
              "get_global_id get_local_id get_group_id blockDim blockIdx threadIdx gridDim x y z __global __kernel __global__ __device__ __restrict__ pragma omp parallel simd ivdep".split())
CAPTURE_FIXED = ["%s_end", "%s_start", "%s_max", "%s_lim", "n_%s", "end", "limit", "tid", "gid", "idx", "i", "nn", "autovectorized"]


def identifiers(text):
    text = re.sub(r"/\*.*?\*/", " ", text, flags=re.S)
    text = re.sub(r"//[^\n]*", " ", text)
    text = re.sub(r'"(?:\\.|[^"\\])*"', " ", text)
    return set(re.findall(r"[A-Za-z_]\w*", text))


def capture_skeletons(sks, incdir):
    """adversarial skeletons: (a) one whose kernel declares, and reads inside its blocks, locals with the names a rewriter would
    plausibly pick for helpers of its own (derived from the loop variables); (b) for every identifier that the specialised
    text of a skeleton holds on some target and the source does not (the specialiser's own helpers; target built-ins and
    keywords aside), a copy of that skeleton declaring and reading a local of that very name"""
    from xobjects.specialize_source import specialize_source

    out = []
    base = next((sk for sk in sks if len(sk["blocks"]) == 2 and not any(p[0] in ("include", "include2") for p in sk["prefix"])), None) or next((sk for sk in sks if not any(p[0] in ("include", "include2") for p in sk["prefix"])), None)
    if base is not None:
        vs = [b["var"] for b in base["blocks"]]
        names = []
        for pat in CAPTURE_FIXED:
            for v in vs if "%s" in pat else [None]:
                nm = pat % v if v else pat
                if nm not in names:
                    names.append(nm)
        out.append(dict(base, id=base["id"] + 500000, capture=names))
    seen = set()
    for sk in sks:
        if any(p[0] in ("include", "include2") for p in sk["prefix"]):
            continue
        lines, _ = render(sk, incdir)
        src = "\n".join(lines)
        have = identifiers(src)
        new = set()
        for tg in ("cpu_serial", "cpu_openmp", "opencl", "cuda"):
            try:
                new |= identifiers(specialize_source(src, specialize_for=tg)) - have - C_WORDS
            except Exception:
                pass
        new = tuple(sorted(new))
        if new and (new, len(sk["blocks"])) not in seen and len(seen) < 6:
            seen.add((new, len(sk["blocks"])))
            out.append(dict(sk, id=sk["id"] + 600000 + len(seen), capture=list(new)))
    return out


def render(sk, incdir, variant=0):
    """source text of one skeleton + what it must do.  Returns (lines, expect).
    variant 1 = the same skeleton whose included file (same NAME, another folder) has another content"""
    k = sk["id"]
    name = "kk_%d" % k
    lines = []
    exp = dict(name=name, counts=[0, 0], limits=["n", "n"], marks=[], define=None, include=None, include_restricted=None, include2=None, plain=[])
    for p in sk["prefix"]:
        if p[0] == "plain":
            l = "/* plain file-scope text of skeleton %d */" % k
            lines.append(l)
            exp["plain"].append(l)
        elif p[0] == "plainff":
            # legal C text with characters a line-oriented rewriter may mistake for line ends: form feed (the page breaks of
            # GNU-style sources) and vertical tab
            l = "/* plain text of skeleton %d: form\x0cfeed, vertical\x0btab */" % k
            lines.append(l)
            exp["plain"].append(l)
        elif p[0] == "helper":
            lines.append("/*gpufun*/ void bump_%d(/*gpuglmem*/ int* /*restrict*/ c, int i){ c[i] += 1; }" % k)
        elif p[0] == "define":
            lines.append("#define MARK_%d 1 //only_for_context %s" % (k, xs(p[1])))
            exp["define"] = p[1]
        elif p[0] == "include":
            fn = "inc_%d.h" % k
            Y = XSETS[(k + 2 + 3 * variant) % len(XSETS)]
            with open(os.path.join(incdir, fn), "w") as f:
                # the included file itself carries a context-restricted line
                f.write("#define INC_%d 1\n#define INCR_%d 1 //only_for_context %s\n" % (k, k, xs(Y)))
            lines.append("//include_file %s for_context %s" % (fn, xs(p[1])))
            exp["include"] = p[1]
            exp["include_restricted"] = Y
        elif p[0] == "include2":  # a second directive right behind the first one
            fn2 = "inc2_%d.h" % k
            with open(os.path.join(incdir, fn2), "w") as f:
                f.write("#define INC2_%d %d\n" % (k, 1 + variant))
            lines.append("//include_file %s for_context %s" % (fn2, xs(p[1])))
            exp["include2"] = p[1]
    lines.append("/*gpukern*/ void %s(const int n, /*gpuglmem*/ int* c0, /*gpuglmem*/ int* c1, /*gpuglmem*/ int* flags){" % name)
    cap = list(sk.get("capture") or [])
    for X in cap:
        # locals of the kernel, declared before the blocks and read inside them: a name is the user's wherever the
        # specialised text puts its own helpers
        lines.append("  int %s = 41;" % X)
    nmark = 0
    # every fourth skeleton writes an ordinary remark in front of each annotation of the kernel body (the annotation is then
    # not the first comment of its line; the directive is found wherever it stands in the line)
    rk = "// remark of skeleton %d " % k if k % 4 == 1 else ""
    for b in sk["blocks"]:
        v = b["var"]
        lim = b.get("limit", "n")
        exp["limits"][b["ctr"]] = lim
        if b["spell"] == "A":
            lines.append("  int %s=0; %s//vectorize_over %s %s" % (v, rk, v, lim))
        else:
            lines.append("  for (int %s=0; %s<%s; %s++){ %s//vectorize_over %s %s" % (v, v, lim, v, rk, v, lim))
        if cap:
            lines.append("    c%d[%s] += (%s) ? 1 : 100;" % (b["ctr"], v, " && ".join("%s == 41" % X for X in cap)))
            exp["counts"][b["ctr"]] += 1
        for st in b["body"]:
            if st[0] == "inc":
                lines.append("    c%d[%s] += 1;" % (b["ctr"], v))
                exp["counts"][b["ctr"]] += 1
            elif st[0] == "bump":
                lines.append("    bump_%d(c%d, %s);" % (k, b["ctr"], v))
                exp["counts"][b["ctr"]] += 1
            else:
                assert nmark < 4
                lines.append("    flags[%d] = 7; %s//only_for_context %s" % (nmark, rk, xs(st[1])))
                exp["marks"].append((nmark, st[1]))
                nmark += 1
        lines.append(("  %s//end_vectorize" if b["spell"] == "A" else "  }%s//end_vectorize") % rk)
    l = "  flags[7] = flags[7] + 0; /* plain statement of skeleton %d */" % k
    lines.append(l)
    exp["plain"].append(l)
    lines += ["#ifdef MARK_%d" % k, "  flags[5] = 1;", "#endif", "#ifdef INC_%d" % k, "  flags[6] = 1;", "#endif", "#ifdef INCR_%d" % k, "  flags[4] = 1;", "#endif", "#ifdef INC2_%d" % k, "  flags[8] = INC2_%d;" % k, "#endif", "#ifdef C16_EXTRA_HEADER", "  flags[9] = 1;", "#endif", "#ifdef C16_TWICE_B", "  flags[10] = 1;", "#endif", "}"]
    exp["plain"] += ["#ifdef MARK_%d" % k, "  flags[5] = 1;", "#endif", "#ifdef INC_%d" % k, "  flags[6] = 1;", "}"]
    return lines, exp


# --------------------------------------------------------------------------
# device stubs: the "device" is a host build of the real specialised text

_modcache = {}


class HostModule:
    def __init__(self, code, lang, workdir):
        self.lang = lang
        key = (lang, code)
        if key in _modcache:
            self.lib, self.names = _modcache[key]
            return
        d = tempfile.mkdtemp(prefix="dev-%s-" % lang, dir=workdir)
        if lang == "cuda":
            names = re.findall(r"__global__\s+void\s+(\w+)\s*\(", code)
            pre = "typedef struct{unsigned x,y,z;} dim3_; dim3_ blockDim,blockIdx,threadIdx,gridDim;\n#define __global__\n#define __device__\n"
            launch = []
            for nm in names:
                launch.append('extern "C" void launch_%s(unsigned grid, unsigned block, int n, int* a, int* b, int* f){ blockDim.x=block; gridDim.x=grid; '
                              "for(blockIdx.x=0;blockIdx.x<grid;blockIdx.x++) for(threadIdx.x=0;threadIdx.x<block;threadIdx.x++) %s(n,a,b,f);}" % (nm, nm))
            with open(os.path.join(d, "m.cpp"), "w") as f:
                f.write(pre + code + "\n" + "\n".join(launch) + "\n")
            rc, out, err = cnative.run(["g++", "-shared", "-fPIC", "-O0", "-w", "-o", os.path.join(d, "m.so"), os.path.join(d, "m.cpp")], d)
            if rc:
                raise RuntimeError("cuda text rejected by the host C++ compiler:\n" + err[-2000:])
        else:
            names = re.findall(r"__kernel\s+void\s+(\w+)\s*\(", code)
            with open(os.path.join(d, "m.cl"), "w") as f:
                f.write(code + "\n")
            rc, out, err = cnative.run(["clang", "-x", "cl", "-cl-std=CL1.2", "-Xclang", "-finclude-default-header", "-fPIC", "-O0", "-w", "-c", os.path.join(d, "m.cl"), "-o", os.path.join(d, "m.o")], d)
            if rc:
                raise RuntimeError("opencl text rejected by clang -x cl:\n" + err[-2000:])
            # a simulated NDRange with work-groups of 2: global id, local id, group id and sizes are all distinct notions
            drv = ["#include <stddef.h>", "static size_t gid, gsz; size_t _Z13get_global_idj(unsigned d){return d ? 0 : gid;}",
                   "size_t _Z12get_local_idj(unsigned d){return d ? 0 : gid % 2;}", "size_t _Z12get_group_idj(unsigned d){return d ? 0 : gid / 2;}",
                   "size_t _Z15get_global_sizej(unsigned d){return d ? 1 : gsz;}", "size_t _Z14get_local_sizej(unsigned d){return d ? 1 : 2;}",
                   "size_t _Z14get_num_groupsj(unsigned d){return d ? 1 : (gsz + 1) / 2;}"]
            for nm in names:
                drv.append("void %s(int,int*,int*,int*);" % nm)
                drv.append("void launch_%s(size_t gsize, int n, int* a, int* b, int* f){ gsz=gsize; for(gid=0;gid<gsize;gid++) %s(n,a,b,f);}" % (nm, nm))
            with open(os.path.join(d, "d.c"), "w") as f:
                f.write("\n".join(drv) + "\n")
            rc, out, err = cnative.run(["clang", "-shared", "-fPIC", "-w", "-o", os.path.join(d, "m.so"), os.path.join(d, "d.c"), os.path.join(d, "m.o")], d)
            if rc:
                raise RuntimeError("opencl host link failed:\n" + err[-2000:])
        self.lib = ctypes.CDLL(os.path.join(d, "m.so"))
        self.names = names
        _modcache[key] = (self.lib, names)

    # cupy.RawModule interface
    def get_function(self, name):
        lib = self.lib

        def f(grid, block, args, shared_mem=0):
            n, a, b, fl = args
            P = lambda m: ctypes.cast(ctypes.c_void_p(np.frombuffer(m, dtype="i1").ctypes.data), ctypes.POINTER(ctypes.c_int))
            getattr(lib, "launch_" + name)(ctypes.c_uint(grid[0]), ctypes.c_uint(block[0]), ctypes.c_int(int(n)), P(a), P(b), P(fl))

        return f


class FakeCLArray:
    def __init__(self, a):
        self.a = a
        self.dtype = a.dtype
        self.base_data = np.frombuffer(a, dtype="i1")
        self.offset = 0


def make_gpu_contexts(workdir):
    """real ContextCupy / ContextPyopencl objects over stubbed device modules"""
    import xobjects as xo
    import xobjects.context_cupy as cc
    import xobjects.context_pyopencl as co

    cc.cupy = types.SimpleNamespace(RawModule=lambda code: HostModule(code, "cuda", workdir), ndarray=np.ndarray)

    class Prog:
        def __init__(self, c, src):
            self.src = src

        def build(self, options=None):
            self.m = HostModule(self.src, "opencl", workdir)
            return self

        def __getattr__(self, name):
            lib = self.m.lib

            def f(queue, gsize, lsize, n, a, b, fl):
                P = lambda m: ctypes.cast(ctypes.c_void_p(m.ctypes.data), ctypes.POINTER(ctypes.c_int))
                getattr(lib, "launch_" + name)(ctypes.c_size_t(gsize[0]), ctypes.c_int(int(n)), P(a), P(b), P(fl))
                return types.SimpleNamespace(wait=lambda: None)

            return f

    co.cl = types.SimpleNamespace(Program=Prog, Buffer=type("B", (), {}))
    co.cla = types.SimpleNamespace(Array=FakeCLArray)
    cuda = {bs: cc.ContextCupy(default_block_size=bs) for bs in (1, 2, 4, 256)}
    ocl = object.__new__(co.ContextPyopencl)
    xo.context.XContext.__init__(ocl)
    ocl.context = None
    ocl.queue = None
    return cuda, ocl


def built_fixed(i, bs):
    """every second kernel of a shard is BUILT with a fixed thread count (and switched to the argument name after its first call)"""
    return None if (i + _PARITY[0]) % 2 == 0 else (257 if bs == 256 else 5)


_PARITY = [0]


def kernel_descr(names, bs=None):
    import xobjects as xo

    return {nm: xo.Kernel(args=[xo.Arg(xo.Int32, name="n"), xo.Arg(xo.Int32, pointer=True, name="c0"), xo.Arg(xo.Int32, pointer=True, name="c1"), xo.Arg(xo.Int32, pointer=True, name="flags")],
                          n_threads="n" if built_fixed(i, bs) is None else built_fixed(i, bs)) for i, nm in enumerate(names)}


def shards(tier, seed):
    sks = list(skeletons(tier))
    size = 48
    out = [sks[i : i + size] for i in range(0, len(sks), size)]
    return out[seed % len(out):] + out[: seed % len(out)]


def active(target, X):
    return target in X


def check_counts(exp, n, c0, c1, fl, target, label):
    """returns failure text or None"""
    for ci, c in enumerate((c0, c1)):
        want = exp["counts"][ci]
        # the body runs for the indices below the block's limit on the CPU targets and (guarded) on CUDA; on OpenCL once per
        # work-item, i.e. for every index below the launch size n (no guard is generated there, by design)
        lim = max(0, int(eval(exp["limits"][ci].replace("/", "//"), {"n": n})))
        hi = n if target == "opencl" else lim
        if not (c[:hi] == want).all():
            i = int(np.nonzero(c[:hi] != want)[0][0])
            return "once-per-index", "counter of block %d at index %d is %d, expected %d (n=%d, limit %s=%d, %s)" % (ci, i, int(c[i]), want, n, exp["limits"][ci], lim, label)
        if c[hi:].any():
            i = hi + int(np.nonzero(c[hi:])[0][0])
            return "guard-band", "index %d >= limit (%s = %d, n=%d) was executed (%s)" % (i, exp["limits"][ci], hi, n, label)
    ran = (n if target == "opencl" else max(0, int(eval(exp["limits"][0].replace("/", "//"), {"n": n})))) >= 1
    if n >= 1:
        for fi, X in exp["marks"]:
            want = 7 if (active(target, X) and (ran or exp["limits"][0] == "n")) else 0
            if fl[fi] != want:
                return "only-for-context", "line restricted to {%s} %s on %s (n=%d)" % (xs(X), "inactive" if want else "active", target, n)
        for key, fi in (("define", 5), ("include", 6)):
            X = exp[key]
            want = 1 if (X is not None and active(target, X)) else 0
            if fl[fi] != want:
                return key + "-for-context", "%s restricted to %s: marker is %d on %s (n=%d)" % (key, X, int(fl[fi]), target, n)
        if exp.get("include2") is not None and (fl[8] != 0) != active(target, exp["include2"]):
            return "include-for-context", "second of two adjacent include directives (for %s): marker is %d on %s (n=%d)" % (exp["include2"], int(fl[8]), target, n)
        if exp["include"] is not None:
            want = 1 if (active(target, exp["include"]) and active(target, exp["include_restricted"])) else 0
            if fl[4] != want:
                return "only-for-context", "line restricted to {%s} inside a file included for {%s}: marker is %d on %s (n=%d)" % (xs(exp["include_restricted"]), xs(exp["include"]), int(fl[4]), target, n)
    return None


def passthrough(exp, spec_text):
    pos = 0
    spec_text = spec_text + "\n"
    for l in exp["plain"]:
        k = spec_text.find(l + "\n", pos)
        if k < 0:
            return "unannotated line %r missing or out of order" % l
        pos = k + len(l)
    return None


PRIVATE = [("//vectorize_over", "//c16_begin_block"), ("//end_vectorize", "//c16_end_block"), ("//only_for_context", "//c16_only_in"), ("//include_file", "//c16_splice"),
           ("/*gpukern*/", "/*c16kern*/"), ("/*gpuglmem*/", "/*c16mem*/")]


def to_private(text):
    for a, b in PRIVATE:
        text = text.replace(a, b)
    return text


def from_private(text):
    for a, b in PRIVATE:
        text = text.replace(b, a)
    return text


def run_shard(sks, tier, seed):
    import xobjects as xo

    res = common.ShardResult()
    work = tempfile.mkdtemp(prefix="xoverif-c16-", dir=os.getcwd())
    sig = set()

    def bad(oracle, failure, sk, detail, **extra):
        res.outcomes["bad:" + failure] += 1
        if (oracle, failure, extra.get("target")) in sig:
            return
        sig.add((oracle, failure, extra.get("target")))
        f = dict(blocks=len(sk["blocks"]), spellings="".join(b["spell"] for b in sk["blocks"]), prefix=[p[0] for p in sk["prefix"]], same_var=len({b["var"] for b in sk["blocks"]}) == 1)
        f.update(extra)
        res.violations.append(common.violation(oracle, failure, f, dict(skeleton=sk, **extra), detail))

    try:
      if len(sks) > 1:
          # (a replayed case is a single skeleton: it carries its own capture list)
          capdir = os.path.join(work, "cap")
          os.makedirs(capdir)
          extra = capture_skeletons(sks, capdir)
          res.events["capture-skeletons"] += len(extra)
          sks = list(sks) + extra
      for variant in (0, 1):
        # variant 1: a second build in the same process of the skeletons that include a file; the included files have
        # the same names, live in another folder and have another content (what a build reads must be what is there now)
        if variant == 1:
            sks = [sk for sk in sks if any(p[0] == "include" for p in sk["prefix"])][:6]
            if not sks:
                break
        srcdir = os.path.join(work, "src%d" % variant)
        os.makedirs(srcdir)
        texts, exps = [], {}
        for sk in sks:
            lines, exp = render(sk, srcdir, variant)
            texts.append("\n".join(lines))
            exps[exp["name"]] = (sk, exp)
        src_path = os.path.join(srcdir, "kern.c")
        # the file is written in a PRIVATE vocabulary; a function given as apply_to_source (the hook downstream packages use
        # for their own markers) translates it into the annotations before the source is specialised
        with open(src_path, "w") as f:
            f.write(to_private("\n".join(texts) + "\n"))
        names = list(exps)
        cuda, ocl = make_gpu_contexts(work)
        ctxs = [("cpu_serial", "cpu_serial", xo.ContextCpu(0), None), ("cpu_openmp", "cpu_openmp", xo.ContextCpu(omp_num_threads=2), None), ("cpu_openmp_auto", "cpu_openmp", xo.ContextCpu(omp_num_threads="auto"), None)]
        ctxs += [("cuda", "cuda", cuda[bs], bs) for bs in (1, 2, 4, 256)]
        ctxs += [("opencl", "opencl", ocl, None)]
        if variant == 1:
            ctxs = [c for c in ctxs if c[0] in ("cpu_serial", "opencl") or (c[0] == "cuda" and c[3] == 2)]
        cwd = os.getcwd()
        # a re-includable piece of plain text listed TWICE among the sources of the build (the second copy defines another
        # name than the first): every listed source is part of the build, as often as it is listed
        twice = "#ifndef C16_TWICE_A\n#define C16_TWICE_A 1\n#else\n#define C16_TWICE_B 1\n#endif\n"
        # some builds of every shard also emit the API of xobjects classes in front of the annotated source: a struct holding a
        # union reference that declares a method (its API holds conditionals of its own)
        from . import c15

        with_classes = [w for w in c15.method_worlds() if w[0] == "M21"][0][1]
        for label, target, ctx, bs in ctxs:
            xc = dict(extra_classes=list(with_classes)) if (label == "cpu_openmp" or target == "opencl" or (target == "cuda" and bs == 2)) else {}
            if xc:
                res.events["build-with-class-api"] += 1
            os.chdir(work)
            try:
                if target.startswith("cpu"):
                    # the first build of the process is given an extra header: it belongs to that build only
                    xh = dict(extra_headers=["#define C16_EXTRA_HEADER 1"]) if label == "cpu_serial" else {}
                    ctx.add_kernels(sources=[twice, twice, Path(src_path)], kernels=kernel_descr(names, bs), extra_compile_args=("-O0", "-w"), extra_link_args=(), apply_to_source=[from_private], **xh, **xc)
                else:
                    ctx.add_kernels(sources=[twice, twice, Path(src_path)], kernels=kernel_descr(names, bs), apply_to_source=[from_private], **xc)
            except Exception as e:
                bad("C16.builds", "specialised-source-does-not-build", sks[0], "%s: %s" % (label, str(e)[-1500:]), target=target)
                continue
            finally:
                os.chdir(cwd)
            ns = (SMALL_N if bs in (None, 1, 2, 4) else []) + (BIG_N if bs in (None, 256) else [])
            for ki, nm in enumerate(names):
                sk, exp = exps[nm]
                kern = ctx.kernels[nm]
                pre = [("built-fixed", built_fixed(ki, bs))] if built_fixed(ki, bs) is not None else []
                if bs in (None, 1):
                    res.transitions += 1
                    res.events["passthrough"] += 1
                    p = passthrough(exp, kern.specialized_source)
                    if p:
                        bad("C16.passthrough", "unannotated-text-changed", sk, "%s: %s" % (label, p), target=target)
                for n in pre + list(ns):
                    if isinstance(n, tuple):
                        n = n[1]  # first call of a kernel built with this fixed thread count
                    elif pre:
                        getattr(ctx.kernels, nm).set_n_threads("n")
                        pre = []
                    c0 = np.zeros(n + GUARD, dtype="i4")
                    c1 = np.zeros(n + GUARD, dtype="i4")
                    fl = np.zeros(12, dtype="i4")
                    res.transitions += 1
                    res.events[label] += 1
                    try:
                        if target == "opencl":
                            kern(n=n, c0=FakeCLArray(c0), c1=FakeCLArray(c1), flags=FakeCLArray(fl))
                        else:
                            getattr(ctx.kernels, nm)(n=n, c0=c0, c1=c1, flags=fl)
                    except Exception as e:
                        bad("C16.runs", "kernel-call-raises:" + type(e).__name__, sk, "%s n=%d: %r" % (label, n, e), target=target, n=n)
                        continue
                    r = check_counts(exp, n, c0, c1, fl, target, label + (" block=%d" % bs if bs else ""))
                    if not r and n >= 1 and int(fl[9]) != (1 if label == "cpu_serial" else 0):
                        r = ("extra-header", "the header given to the cpu_serial build only is %s in the %s build (variant %d)" % ("active" if fl[9] else "missing", label, variant))
                    if not r and n >= 1 and int(fl[10]) != 1:
                        r = ("repeated-source", "a piece of text listed twice among the sources of the build is present %s in the %s build" % ("once" if not fl[10] else "?", label))
                    if r:
                        bad("C16." + r[0], r[0], sk, r[1], target=target, n=n, block=bs)
                    else:
                        res.outcomes["ok:" + label] += 1
                # launch-geometry histories: the thread count of a built kernel is changed between calls (fixed numbers that
                # grow and shrink, then back to the name of the argument); every call must still run each index once
                if bs in (None, 2, 256):
                    disp = getattr(ctx.kernels, nm)
                    hist = []
                    for setting, n in GEOMETRY_HISTORY if bs != 256 else GEOMETRY_HISTORY_BIG:
                        disp.set_n_threads(n if setting == "fixed" else "n")
                        hist.append((setting, n))
                        c0 = np.zeros(n + GUARD, dtype="i4")
                        c1 = np.zeros(n + GUARD, dtype="i4")
                        fl = np.zeros(12, dtype="i4")
                        res.transitions += 1
                        res.events["set_n_threads"] += 1
                        try:
                            if target == "opencl":
                                kern(n=n, c0=FakeCLArray(c0), c1=FakeCLArray(c1), flags=FakeCLArray(fl))
                            else:
                                disp(n=n, c0=c0, c1=c1, flags=fl)
                        except Exception as e:
                            bad("C16.runs", "kernel-call-raises:" + type(e).__name__, sk, "%s after set_n_threads history %r: %r" % (label, hist, e), target=target, n=n, geometry_history=True)
                            break
                        r = check_counts(exp, n, c0, c1, fl, target, label + (" block=%d" % bs if bs else "") + " after set_n_threads history %r" % (hist,))
                        if r:
                            bad("C16." + r[0], r[0], sk, r[1], target=target, n=n, block=bs, geometry_history=True)
                            break
                        res.outcomes["ok-history:" + label] += 1
                    disp.set_n_threads("n")
        if variant == 1:
            res.events["second-build"] += len(sks)
            continue
        res.cases = len(sks)
        res.states = res.nontrivial = len(sks)
        res.max_depth = 1
        res.sample(dict(skeleton_text=texts[0].split("\n")[:14], contexts=[c[0] for c in ctxs]))
    finally:
        _modcache.clear()
        shutil.rmtree(work, ignore_errors=True)
    return res


def replay(case):
    out = []
    for par in (0, 1):  # built with the argument name / with a fixed thread count
        _PARITY[0] = par
        try:
            out += run_shard([case["skeleton"]], "quick", 0).violations
        finally:
            _PARITY[0] = 0
    return out
