"""C15: OpenCL and CUDA accessor source computes the same addresses as CPU (DESIGN.md 2/C15)."""
import os
import re
import shutil
import tempfile

from . import c02, c07, cnative, common, cons, cseam, universe, xt

PID = "C15"
TARGETS = ["cpu_serial", "cpu_openmp", "opencl", "cuda"]
QUAL = {"__global", "__kernel", "__global__", "__device__", "static", "inline", "restrict"}
TOK = re.compile(r"[A-Za-z_]\w*|\d+|\S")


def describe(tier):
    return dict(
        rule="for every type of the C02 universe (batched): (i) the class API source specialised for cpu_serial, cpu_openmp, opencl and cuda has the same token "
        "stream once the target-qualifier tokens are deleted; (ii) in the OpenCL text every pointer type (cast, return type, typedef) carries __global, the real "
        "OpenCL text is accepted by clang -x cl -cl-std=CL1.2 (strict address spaces) and every form is accepted by gcc/g++ with the target keywords defined "
        "away; (iii) the OpenCL text (compiled for the host by clang's OpenCL front end) and the CUDA text (g++, keywords defined away, extern \"C\" wrapper kept) "
        "are linked with uniform wrappers and EXECUTED: every accessor of every path x every in-range index tuple x objects returns the values, addresses, "
        "lengths and member identities Python reports, setters change only their element, final images decode to the expected value tree.",
        bounds=dict(types=len(c02.types_for(tier)), targets=TARGETS, values=["ramp", "minimal"]),
        assumptions=["host compilers stand in for device compilers; device memory models are not simulated"],
        must_fire=["tokens", "global-qualifier", "compile", "opencl-call", "cuda-call", "opencl-set", "cuda-set"],
    )


def shards(tier, seed):
    common.quiet()
    ts = c02.types_for(tier)
    ts = ts[seed % len(ts):] + ts[: seed % len(ts)]
    return cseam.plan_batches(ts, 16) + [["methods"]]


def class_source(t):
    from xobjects.context import sort_classes, sources_from_classes, _concatenate_sources

    classes = sort_classes([xt.build(t)])
    source, _ = _concatenate_sources(sources_from_classes(classes))
    # the accessor source is specialised in one call with, and after, lines restricted to other contexts (as the headers of
    # a real build are): on every target one of the two lines is dropped
    return CTX_LINES + source


CTX_LINES = "typedef int c15_ctx_marker_cpu; //only_for_context cpu_serial cpu_openmp\ntypedef int c15_ctx_marker_gpu; //only_for_context opencl cuda\n"


def tokens(text):
    text = "\n".join(l for l in text.split("\n") if "c15_ctx_marker" not in l)  # (the restricted lines differ between targets by design)
    return [x for x in TOK.findall(text) if x not in QUAL]


PP_DEFS = ["-D__global=", "-D__kernel=", "-D__global__=", "-D__device__=", "-Drestrict="]


def pp_tokens(text):
    """token stream of `text` after the C preprocessor has resolved its conditionals (target keywords defined away)"""
    import subprocess

    text = "\n".join(l for l in text.split("\n") if "c15_ctx_marker" not in l and not l.lstrip().startswith("#include"))
    p = subprocess.run(["gcc", "-E", "-P", "-x", "c", "-w"] + PP_DEFS + ["-"], input=text.encode(), stdout=subprocess.PIPE, stderr=subprocess.PIPE, timeout=120)
    if p.returncode:
        raise RuntimeError("preprocessor: " + p.stderr.decode("utf8", "replace")[-600:])
    return [x for x in TOK.findall(p.stdout.decode("utf8", "replace")) if x not in QUAL]


def doubled_checks(src, t, phase, res, bad, label="doubled"):
    """the guarded API text may appear more than once in a source (a bundle that carries the API it relies on, behind the API
    the build emits): specialised for each target, what the preprocessor keeps of the doubled text is what it keeps of the
    single text, and the same on every target"""
    from xobjects.specialize_source import specialize_source

    ref = None
    for tg in TARGETS:
        res.transitions += 1
        res.events["doubled"] += 1
        try:
            one = pp_tokens(specialize_source(src, specialize_for=tg))
            two = pp_tokens(specialize_source(src + "\n" + src, specialize_for=tg))
        except Exception as e:
            bad("C15.host-compiles", "doubled-source-not-preprocessable:" + tg, t, repr(e)[-800:], target=tg, phase=phase, source=label)
            continue
        if one != two:
            k = next((i for i, (a, b) in enumerate(zip(two, one)) if a != b), min(len(one), len(two)))
            bad("C15.same-computation", "doubled-source-differs-from-single:" + tg, t, "at token %d: ...%s... vs ...%s..." % (k, " ".join(two[max(0, k - 6) : k + 6]), " ".join(one[max(0, k - 6) : k + 6])), target=tg, phase=phase, source=label)
        if ref is None:
            ref = two
        elif two != ref:
            k = next((i for i, (a, b) in enumerate(zip(two, ref)) if a != b), min(len(two), len(ref)))
            bad("C15.same-computation", "token-streams-differ", t, "doubled source, %s vs cpu_serial at token %d: ...%s... vs ...%s..." % (tg, k, " ".join(two[max(0, k - 6) : k + 6]), " ".join(ref[max(0, k - 6) : k + 6])), target=tg, phase=phase, source=label)


def unqualified_pointers(text):
    """pointer types of the OpenCL text that do not carry __global; returns list of offending snippets"""
    bad = []
    # casts: ( ... * )
    for m in re.finditer(r"\(([^()]*?\w\s*\*)\s*\)", text):
        if "__global" not in m.group(1):
            bad.append(m.group(0))
    for line in text.splitlines():
        s = line.strip()
        if s.startswith("typedef") and "*" in s and "struct" in s and "__global" not in s:
            bad.append(s)
        m = re.match(r"^(.*?\w\s*\*)\s*\w+\s*\(", s)  # pointer return type of a function definition
        if m and not s.startswith(("return", "*")) and "=" not in m.group(1) and "__global" not in m.group(1):
            bad.append(s)
    return bad


def _text_checks(t, phase, res, bad):
    from xobjects.specialize_source import specialize_source

    for _ in (0,):
        try:
            src = class_source(t)
            forms = {tg: specialize_source(src, specialize_for=tg) for tg in TARGETS}
        except Exception as e:
            bad("C15.specialise", "raises:" + common.exc_failure(e), t, repr(e), phase=phase)
            return
        res.cases += 1
        if phase != "after-cpu-build":
            doubled_checks(src, t, phase, res, bad)
        ref = tokens(forms["cpu_serial"])
        for tg in TARGETS[1:]:
            res.transitions += 1
            res.events["tokens"] += 1
            tk = tokens(forms[tg])
            if tk != ref:
                k = next((i for i, (a, b) in enumerate(zip(tk, ref)) if a != b), min(len(tk), len(ref)))
                bad("C15.same-computation", "token-streams-differ", t, "%s vs cpu_serial at token %d: ...%s... vs ...%s..." % (tg, k, " ".join(tk[max(0, k - 6) : k + 6]), " ".join(ref[max(0, k - 6) : k + 6])), target=tg, phase=phase)
        res.transitions += 1
        res.events["global-qualifier"] += 1
        up = unqualified_pointers(forms["opencl"])
        if up:
            bad("C15.global-qualifier", "pointer-without-__global", t, "; ".join(up[:4]), target="opencl", phase=phase)
        if "__global" in forms["cuda"].replace("__global__", "") or "__kernel" in forms["cuda"]:
            bad("C15.qualifiers", "opencl-keyword-in-cuda", t, "", target="cuda", phase=phase)
        # every accessor is a device function in the CUDA form and static inline in the CPU forms
        heads = [l for l in forms["cuda"].splitlines() if re.match(r"^\s*[\w\s\*]+\w+\([^;]*\)\{\s*$", l) and not l.strip().startswith(("typedef", "enum", "return", "#", "switch", "if", "for"))]
        nodev = [l.strip() for l in heads if "__device__" not in l]
        if nodev:
            bad("C15.qualifiers", "cuda-function-without-__device__", t, "; ".join(nodev[:3]), target="cuda", phase=phase)
        for tg in ("cpu_serial", "cpu_openmp"):
            if re.search(r"__global|__kernel|__device__", forms[tg]):
                bad("C15.qualifiers", "gpu-keyword-in-cpu", t, "", target=tg, phase=phase)
        for tg in TARGETS:
            if re.search(r"/\*gpu(kern|fun|glmem)\*/|/\*restrict\*/", forms[tg]):
                bad("C15.qualifiers", "placeholder-left", t, "", target=tg, phase=phase)
        res.states += 1


def method_worlds():
    """hand-declared classes: union references that declare methods (the API then holds a dispatching function whose cases
    sit between conditionals of their own), with one or two members and one or two methods, held by a struct / an array"""
    import xobjects as xo

    worlds = []
    for nm, nmeth in ((1, 1), (2, 1), (2, 2)):
        tag = "M%d%d" % (nm, nmeth)
        meths = ["weigh", "gauge"][:nmeth]
        members = []
        for k in range(nm):
            name = "C15%s_m%d" % (tag, k)
            fields = {"a": xo.Float64, "b": xo.Int32[:] if k else xo.Int64}
            extra = "\n".join("/*gpufun*/ double %s_%s(%s obj, double s){ return s + %s_get_a(obj) + %d; }" % (name, m, name, name, k) for m in meths)
            members.append(type(name, (xo.Struct,), dict(fields, _extra_c_sources=[extra])))
        U = type("C15%s_u" % tag, (xo.UnionRef,), dict(_reftypes=tuple(members), _methods=[xo.Method(c_name=m, args=[xo.Arg(xo.Float64, name="s")], ret=xo.Arg(xo.Float64)) for m in meths]))
        H = type("C15%s_h" % tag, (xo.Struct,), dict(u=U, k=xo.Float64))
        worlds.append((tag, [H], U))
        worlds.append((tag + "arr", [U[:]], U))
    return worlds


def run_methods(res, bad):
    from xobjects.context import sort_classes, sources_from_classes, _concatenate_sources
    from xobjects.specialize_source import specialize_source

    work = tempfile.mkdtemp(prefix="xoverif-c15m-", dir=os.getcwd())
    try:
        for tag, roots, U in method_worlds():
            res.cases += 1
            res.states += 1
            classes = sort_classes(roots)
            source, _ = _concatenate_sources(sources_from_classes(classes))
            # the source the build emits, and a bundle behind it that carries the API of the union it relies on
            usrc = U._gen_c_api()
            usrc = usrc.source if hasattr(usrc, "source") else usrc
            for label, src in (("build", CTX_LINES + source), ("build+bundle", CTX_LINES + source + "\n" + usrc)):
                forms = {}
                for tg in TARGETS:
                    res.transitions += 1
                    res.events["methods"] += 1
                    try:
                        forms[tg] = specialize_source(src, specialize_for=tg)
                    except Exception as e:
                        bad("C15.specialise", "raises:" + common.exc_failure(e), None, repr(e), world=tag, source=label, target=tg)
                if len(forms) < len(TARGETS):
                    continue
                try:
                    pp = {tg: pp_tokens(forms[tg]) for tg in TARGETS}
                except Exception as e:
                    bad("C15.host-compiles", "not-preprocessable", None, repr(e)[-800:], world=tag, source=label)
                    continue
                for tg in TARGETS[1:]:
                    if pp[tg] != pp["cpu_serial"]:
                        k = next((i for i, (a, b) in enumerate(zip(pp[tg], pp["cpu_serial"])) if a != b), min(len(pp[tg]), len(pp["cpu_serial"])))
                        bad("C15.same-computation", "token-streams-differ", None, "%s vs cpu_serial at token %d: ...%s... vs ...%s..." % (tg, k, " ".join(pp[tg][max(0, k - 6) : k + 6]), " ".join(pp["cpu_serial"][max(0, k - 6) : k + 6])), world=tag, source=label, target=tg)
                up = unqualified_pointers(forms["opencl"])
                if up:
                    bad("C15.global-qualifier", "pointer-without-__global", None, "; ".join(up[:4]), world=tag, source=label, target="opencl")
                for tg in TARGETS:
                    fn = os.path.join(work, "m_%s_%s.%s" % (tag, tg, "cpp" if tg == "cuda" else "c"))
                    pre = "#include <stdint.h>\n" + ('extern "C"{\n' if tg == "cuda" else "")
                    open(fn, "w").write(pre + forms[tg] + ("\n}\n" if tg == "cuda" else "\n"))
                    cmd = (["g++"] if tg == "cuda" else ["gcc", "-std=c99"]) + ["-fsyntax-only", "-w"] + PP_DEFS[:4] + [fn]
                    res.transitions += 1
                    res.events["compile"] += 1
                    rc, out, err = cnative.run(cmd, work)
                    if rc:
                        bad("C15.host-compiles", "rejected-by-host-compiler:" + tg, None, "%s\n%s" % (" ".join(cmd), err[-1500:]), world=tag, source=label, target=tg)
    finally:
        shutil.rmtree(work, ignore_errors=True)


def run_shard(types, tier, seed):
    from xobjects.specialize_source import specialize_source

    res = common.ShardResult()

    def bad(oracle, failure, t, detail, **extra):
        res.outcomes["bad:" + failure.split(":")[0]] += 1
        f = xt.features(t) if t else {}
        f.update(extra)
        res.violations.append(common.violation(oracle, failure, f, dict(type=t, type_str=xt.show(t) if t else None, **extra), detail))

    def text_checks(t, phase):
        """(i) + qualifier rule for one type; `phase` says in which process state the source was generated"""
        return _text_checks(t, phase, res, bad)

    if types and types[0] == "methods":
        run_methods(res, bad)
        res.nontrivial = res.states
        res.max_depth = 1
        return res

    # (i) + qualifier rule, per type
    for ti, t in enumerate(types):
        if ti % 2:
            # process history: the FIRST thing ever generated for the classes of every other type are their plain C
            # declarations / kernel descriptions with an empty configuration (what a CPU build asks cffi for)
            try:
                from xobjects.context import sort_classes

                for c_ in sort_classes([xt.build(t)]):
                    c_._gen_c_decl({})
                    if hasattr(c_, "_gen_kernels"):
                        c_._gen_kernels({})
            except Exception as e:
                res.skipped["plain-declarations(C02's business):" + type(e).__name__] += 1
            text_checks(t, "after-plain-declarations")
        else:
            text_checks(t, "fresh")
    # ... and again after a real ContextCpu kernel build in this process: generated text must not depend on what was built before
    try:
        cseam.build_module(types[:1])
        for t in types:
            text_checks(t, "after-cpu-build")
    except Exception as e:
        res.skipped["cffi-build(C02's business):" + type(e).__name__] += 1
    # (ii) compile acceptance per batch
    work = tempfile.mkdtemp(prefix="xoverif-c15-", dir=os.getcwd())
    try:
        for tg in TARGETS:
            res.transitions += 1
            res.events["compile"] += 1
            try:
                text, decls, classes = cnative.api_source(types, tg)
            except Exception as e:
                bad("C15.specialise", "api-source-raises:" + common.exc_failure(e), types[0], repr(e), target=tg)
                continue
            if tg == "opencl":
                fn = os.path.join(work, "k.c")
                open(fn, "w").write(text)
                cmd = ["gcc", "-std=c99", "-fsyntax-only", "-w", "-D__global=", "-D__kernel=", fn]
            elif tg == "cuda":
                fn = os.path.join(work, "k.cpp")
                open(fn, "w").write(text)
                cmd = ["g++", "-fsyntax-only", "-w", "-D__global__=", "-D__device__=", fn]
            else:
                fn = os.path.join(work, "k_%s.c" % tg)
                open(fn, "w").write(text)
                cmd = ["gcc", "-std=c99", "-fsyntax-only", "-w"] + (["-fopenmp"] if tg == "cpu_openmp" else []) + [fn]
            rc, out, err = cnative.run(cmd, work)
            if rc:
                culprit = types[0]
                bad("C15.host-compiles", "rejected-by-host-compiler:" + tg, culprit, "%s\n%s" % (" ".join(cmd), err[-1500:]), target=tg, batch=[xt.show(t) for t in types[:6]])
        # (iii) execute the OpenCL and CUDA forms on the host
        for tg in ("opencl", "cuda"):
            n0 = len(res.violations)
            c07.route_asan(types, res, seed, target=tg, sanitize=False, label=tg, pid="C15")
            for v in res.violations[n0:]:
                v["features"]["target"] = tg
    finally:
        shutil.rmtree(work, ignore_errors=True)
    res.nontrivial = res.states
    res.max_depth = 1
    if types:
        res.sample(dict(batch_types=[xt.show(t) for t in types[:3]], targets=TARGETS))
    return res


def replay(case):
    t = xt.retuple(case["type"]) if case.get("type") else None
    if t is None and case.get("world"):
        return [v for v in run_shard(["methods"], "quick", 0).violations if v["case"].get("world") == case["world"]]
    if t is None:
        return []
    return run_shard([t], "quick", 0).violations
