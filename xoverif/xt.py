"""Harness-side type AST, class builder, value trees, input forms, reader and the independent
documented-layout decoder (DESIGN.md 1.2 / 1.3 / 1.5).

AST (hashable nested tuples):
    ('S', kind)                     kind in KINDS
    ('Str',)
    ('St', ((name, T), ...))
    ('A', T, dims, order)           dims: tuple of int|None ; order: tuple (permutation, order[0] slowest)
    ('R', T)                        T in St | A
    ('U', (T, ...))                 members in St | A

Value trees:
    scalar -> python int / float ; string -> str ; struct -> dict name->value
    array  -> {'shape': tuple, 'items': {index tuple: value}}
    ref    -> None | value of the target ; unionref -> None | (member index, value)

Only `build`, `to_form` and `read` touch xobjects, through its public syntax.  `decode`, `layout_size`
and everything about values is independent of the library.
"""
import hashlib
import itertools
import struct as pystruct

import numpy as np

KINDS = ["i8", "u8", "i16", "u16", "i32", "u32", "i64", "u64", "f32", "f64"]
NPDT = {"i8": "i1", "u8": "u1", "i16": "<i2", "u16": "<u2", "i32": "<i4", "u32": "<u4", "i64": "<i8", "u64": "<u8", "f32": "<f4", "f64": "<f8"}
XONAME = {"i8": "Int8", "u8": "UInt8", "i16": "Int16", "u16": "UInt16", "i32": "Int32", "u32": "UInt32", "i64": "Int64", "u64": "UInt64", "f32": "Float32", "f64": "Float64"}
NULLOFF = -(2**63)


def Sc(k):
    return ("S", k)


STR = ("Str",)


def St(*fields):
    """fields: types (auto-named f0..) or (name, type) pairs"""
    out = []
    for i, f in enumerate(fields):
        if isinstance(f, tuple) and len(f) == 2 and isinstance(f[0], str) and f[0] not in ("S", "R", "U", "St"):
            out.append((f[0], f[1]))
        else:
            out.append(("f%d" % i, f))
    return ("St", tuple(out))


def Arr(item, dims, order=None):
    dims = tuple(dims) if isinstance(dims, (tuple, list)) else (dims,)
    if order is None:
        order = tuple(range(len(dims)))
    return ("A", item, dims, tuple(order))


def Ref(t):
    return ("R", t)


def URef(*ts):
    return ("U", tuple(ts))


def retuple(x):
    """JSON lists back to the hashable AST"""
    if isinstance(x, list):
        return tuple(retuple(y) for y in x)
    return x


def slot(n):
    return (n + 7) & -8


def is_dyn(t):
    k = t[0]
    if k == "Str":
        return True
    if k == "St":
        return any(is_dyn(ft) for _, ft in t[1])
    if k == "A":
        return any(d is None for d in t[2]) or is_dyn(t[1])
    return False


def has_refs(t):
    k = t[0]
    if k in ("R", "U"):
        return True
    if k == "St":
        return any(has_refs(ft) for _, ft in t[1])
    if k == "A":
        return has_refs(t[1])
    return False


def subtypes(t):
    yield t
    k = t[0]
    if k == "St":
        for _, ft in t[1]:
            yield from subtypes(ft)
    elif k in ("A", "R"):
        yield from subtypes(t[1])
    elif k == "U":
        for m in t[1]:
            yield from subtypes(m)


def depth(t):
    k = t[0]
    if k in ("S", "Str"):
        return 0
    if k == "St":
        return 1 + max([depth(ft) for _, ft in t[1]] or [0])
    if k in ("A", "R"):
        return 1 + depth(t[1])
    return 1 + max(depth(m) for m in t[1])


def show(t):
    k = t[0]
    if k == "S":
        return XONAME[t[1]]
    if k == "Str":
        return "String"
    if k == "St":
        return "Struct{" + ",".join("%s:%s" % (n, show(ft)) for n, ft in t[1]) + "}"
    if k == "A":
        ident = tuple(t[3]) == tuple(range(len(t[2])))
        ds = ",".join((":" if d is None else str(d)) + ("" if ident else ":%d" % o) for d, o in zip(t[2], t[3]))
        return "%s[%s]" % (show(t[1]), ds)
    if k == "R":
        return "Ref[%s]" % show(t[1])
    return "UnionRef[%s]" % ",".join(show(m) for m in t[1])


def features(t):
    """Case features of a type used for known-finding predicates and outcome classes."""
    f = dict(root=t[0], depth=depth(t), dyn=is_dyn(t), has_refs=has_refs(t))
    arrs = [s for s in subtypes(t) if s[0] == "A"]
    f["max_rank"] = max([len(a[2]) for a in arrs] or [0])
    f["noncorder"] = any(tuple(a[3]) != tuple(range(len(a[2]))) for a in arrs)
    f["nd_dyn_items"] = any(len(a[2]) > 1 and is_dyn(a[1]) for a in arrs)
    f["nd_dyn_shape"] = any(len(a[2]) > 1 and any(d is None for d in a[2]) for a in arrs)
    f["has_string"] = any(s[0] == "Str" for s in subtypes(t))
    f["has_uref"] = any(s[0] == "U" for s in subtypes(t))
    f["has_ref"] = any(s[0] == "R" for s in subtypes(t))
    f["uref_array"] = any(a[1][0] == "U" for a in arrs)
    f["ref_array"] = any(a[1][0] == "R" for a in arrs)
    if t[0] == "A":
        f["item"] = t[1][0]
        f["rank"] = len(t[2])
        f["order_identity"] = tuple(t[3]) == tuple(range(len(t[2])))
        f["dyn_shape"] = any(d is None for d in t[2])
        f["dyn_item"] = is_dyn(t[1])
    return f


# --------------------------------------------------------------------------
# builder (public xobjects syntax only)

_cache = {}


def tname(t):
    return hashlib.sha1(repr(t).encode()).hexdigest()[:8]


def build(t):
    import xobjects as xo

    c = _cache.get((t, DECL[0]))
    if c is not None:
        return c
    k = t[0]
    if k == "S":
        c = getattr(xo, XONAME[t[1]])
    elif k == "Str":
        c = xo.String
    elif k == "A" and DECL[0] in ("subclass", "subclass-np"):
        # the array class is DECLARED (class statement with _itemtype / _shape / _order) instead of being made by indexing;
        # C order: no _order for rank 1, "C" otherwise; Fortran order: "F"; any other order: the tuple
        it = build(t[1])
        rank = len(t[2])
        data = {"_itemtype": it, "_shape": tuple(t[2])}
        if DECL[0] == "subclass-np":  # the declared extents are numpy integers (a shape computed with numpy)
            data["_shape"] = tuple(d if d is None else np.int64(d) for d in t[2])
        if tuple(t[3]) == tuple(range(rank)):
            if rank > 1:
                data["_order"] = "C"
        elif tuple(t[3]) == tuple(reversed(range(rank))):
            data["_order"] = "F"
        else:
            data["_order"] = tuple(t[3])
        c = type("Decl" + tname(t), (xo.Array,), data)
    elif k == "A" and DECL[0] == "np-extents" and tuple(t[3]) == tuple(range(len(t[2]))):
        # the static extents are given as numpy integers (a shape computed with numpy), in the tuple form of indexing
        it = build(t[1])
        c = it[tuple(slice(None) if d is None else np.int64(d) for d in t[2])]
    elif k == "A" and DECL[0] == "named-subclass" and not _in_named[0]:
        # the array class is given a name by subclassing the class made by indexing: class Line(Elem[:]): pass
        _in_named[0] = True
        try:
            base = build_plain_array(t)
        finally:
            _in_named[0] = False
        c = type("Nm" + tname(t), (base,), {})
    elif k == "A":
        it = build(t[1])
        ident = tuple(t[3]) == tuple(range(len(t[2])))
        if ident:
            idx = tuple(slice(None) if d is None else d for d in t[2])
        else:
            idx = tuple(slice(d, o) for d, o in zip(t[2], t[3]))
        c = it[idx if len(idx) > 1 else idx[0]]
    elif k == "St" and DECL[0] == "shared-fields":
        # the Field objects of the struct are TAKEN OVER from a donor struct in which a string comes first, so that every
        # dynamic field of the struct is a later dynamic field
        # there (class Taker: samples = Donor.samples); a number comes first too, so that the static fields lie elsewhere as well.
        # The donor's C API and kernel descriptions have been generated BEFORE the taker is declared (whatever the generator
        # remembers about a Field object belongs to the donor).
        donor = type("Dn" + tname(t), (xo.Struct,), dict({"zz_pad": xo.Field(xo.Int64, default=7), "zz_first": xo.Field(xo.String, default="donor")}, **{n: xo.Field(build(ft)) for n, ft in t[1]}))
        donor._gen_c_api()
        donor._gen_kernels()
        c = type("St" + tname(t), (xo.Struct,), {n: getattr(donor, n) for n, ft in t[1]})
    elif k == "St":
        c = type("St" + tname(t), (xo.Struct,), {n: build(ft) for n, ft in t[1]})
    elif k == "R":
        c = xo.Ref[build(t[1])]
    elif k == "U":
        c = type("Un" + tname(t), (xo.UnionRef,), {"_reftypes": [build(x) for x in t[1]]})
    else:
        raise ValueError(t)
    _cache[(t, DECL[0])] = c
    return c


_in_named = [False]


def build_plain_array(t):
    """the array class of t made by indexing, whatever the declaration style (not cached)"""
    it = build(t[1])
    ident = tuple(t[3]) == tuple(range(len(t[2])))
    idx = tuple(slice(None) if d is None else d for d in t[2]) if ident else tuple(slice(d, o) for d, o in zip(t[2], t[3]))
    return it[idx if len(idx) > 1 else idx[0]]


DECL = ["index"]  # how array classes are made: "index" (ItemType[shape]) or "subclass" (declared); a shard sets it for its process


def twin(t):
    """another array type with the same generated class name (same item, same dims) but another axis order"""
    assert t[0] == "A" and len(t[2]) >= 2
    order = tuple(reversed(t[3])) if tuple(reversed(t[3])) != tuple(t[3]) else tuple(t[3][1:]) + tuple(t[3][:1])
    return ("A", t[1], t[2], order)


def build_as(t, name):
    """a struct class for AST t under a caller-chosen class name (to make two different layouts share a name)"""
    import xobjects as xo

    assert t[0] == "St"
    c = type(name, (xo.Struct,), {n: build(ft) for n, ft in t[1]})
    _cache[(t, DECL[0])] = c
    return c


def member_names(t):
    return [build(m).__name__ for m in t[1]]


# --------------------------------------------------------------------------
# values


class Ctr:
    def __init__(self, n=0):
        self.n = n

    def nxt(self):
        self.n += 1
        return self.n


def int_range(kind):
    bits = int(kind[1:])
    if kind[0] == "i":
        return -(1 << (bits - 1)), (1 << (bits - 1)) - 1
    return 0, (1 << bits) - 1


def scalar_value(kind, n):
    """distinct, position-coded, exactly representable"""
    if kind[0] == "f":
        return float(n % 4000) + 0.5
    lo, hi = int_range(kind)
    return n % hi + 1 if hi < 1000 else n + 1


# multi-byte text whose BYTE length crosses a slot boundary that its CHARACTER count does not (and vice versa)
EXT_STR = ["", "1234567", "12345678", "123456789", "hé", "€ß", "\U0001f600x", "a" * 15, "b" * 16, "é" * 8, "€" * 5, "\U0001f600" * 4 + "xyz"]
EXT_F = {"f32": [float("inf"), float("-inf"), float("nan"), -0.0, 1.401298464324817e-45, 3.4028234663852886e38],
         "f64": [float("inf"), float("-inf"), float("nan"), -0.0, 5e-324, 1.7976931348623157e308]}


def scalar_extreme(kind, n):
    if kind[0] == "f":
        l = EXT_F[kind]
        return l[n % len(l)]
    lo, hi = int_range(kind)
    return [hi, lo, 0, -1 if lo < 0 else hi - 1][n % 4]


RAMP_EXT = (2, 3, 4)


def gen(t, mode="ramp", c=None, dynext=None, level=0, _under_ref=False):
    """Generate a value tree.  mode: ramp | long (ramp with multi-slot strings) | extreme | minimal | alt (a second ramp with other numbers, same shapes)
    | null (references null, otherwise ramp)"""
    if c is None:
        c = Ctr(100 if mode == "alt" else 0)
    k = t[0]
    if k == "S":
        n = c.nxt()
        if mode == "extreme":
            return scalar_extreme(t[1], n)
        if mode == "minimal":
            return 0.0 if t[1][0] == "f" else 0
        return scalar_value(t[1], n)
    if k == "Str":
        n = c.nxt()
        if mode == "extreme":
            return EXT_STR[n % len(EXT_STR)]
        if mode == "minimal":
            return ""
        if mode == "long":  # several slots each, so that they can shrink across slot boundaries
            return "L%d" % n + "y" * (17 + n % 9)
        return "s%d" % n + "x" * (n % 7)
    if k == "St":
        return {n: gen(ft, mode, c, dynext, level + 1, _under_ref) for n, ft in t[1]}
    if k == "A":
        if dynext is not None:
            ext = dynext
        elif mode == "emptyref" and _under_ref and any(d is None for d in t[2]):
            # mode emptyref: every reference is BOUND, and an array that is the target of a reference has no items
            dyn = [i for i, d in enumerate(t[2]) if d is None]
            ext = [1] * len(t[2])
            ext[dyn[-1]] = 0
        elif mode == "minimal":
            # zero extent on the last dynamic axis, 1 on the others (a nested list can say (1,0) but not (0,1))
            dyn = [i for i, d in enumerate(t[2]) if d is None]
            ext = [1] * len(t[2])
            if dyn:
                ext[dyn[-1]] = 0 if level % 2 == 0 else 1
        elif mode == "extreme":
            ext = (1, 2, 1)
        else:
            ext = RAMP_EXT
        shape = tuple(d if d is not None else ext[i] for i, d in enumerate(t[2]))
        return {"shape": shape, "items": {idx: gen(t[1], mode, c, dynext, level + 1) for idx in np.ndindex(*shape)}}
    if k == "R":
        if mode in ("minimal", "null"):
            return None
        return gen(t[1], mode, c, dynext, level + 1, True)
    if k == "U":
        if mode in ("minimal", "null"):
            return None
        n = c.nxt()
        i = n % len(t[1]) if mode in ("extreme", "alt") else 0
        if mode == "emptyref":  # prefer a member that is an array with a dynamic axis
            i = next((j for j, m in enumerate(t[1]) if m[0] == "A" and any(d is None for d in m[2])), 0)
        return (i, gen(t[1][i], mode, c, dynext, level + 1, True))
    raise ValueError(t)


def veq(a, b):
    if isinstance(a, dict) and isinstance(b, dict):
        if a.keys() != b.keys():
            return False
        return all(veq(a[k], b[k]) for k in a)
    if isinstance(a, tuple) and isinstance(b, tuple):
        return len(a) == len(b) and all(veq(x, y) for x, y in zip(a, b))
    if isinstance(a, dict) or isinstance(b, dict) or isinstance(a, tuple) or isinstance(b, tuple):
        return False
    if a is None or b is None:
        return a is None and b is None
    if isinstance(a, str) or isinstance(b, str):
        return isinstance(a, str) and isinstance(b, str) and a == b
    if isinstance(a, float) or isinstance(b, float):
        try:
            fa, fb = float(a), float(b)
        except Exception:
            return False
        if fa != fa or fb != fb:
            return fa != fa and fb != fb
        return pystruct.pack("<d", fa) == pystruct.pack("<d", fb)
    return a == b


def vdiff(a, b, path=()):
    """first difference between two value trees (for messages)"""
    if isinstance(a, dict) and isinstance(b, dict):
        if a.keys() != b.keys():
            return path, "keys %r vs %r" % (sorted(map(str, a.keys()))[:6], sorted(map(str, b.keys()))[:6])
        for k in a:
            d = vdiff(a[k], b[k], path + (k,))
            if d:
                return d
        return None
    if isinstance(a, tuple) and isinstance(b, tuple) and len(a) == len(b):
        for i, (x, y) in enumerate(zip(a, b)):
            d = vdiff(x, y, path + (i,))
            if d:
                return d
        return None
    if not veq(a, b):
        return path, "%r vs %r" % (a, b)
    return None


def get_path(v, path):
    for p in path:
        if p == "*":  # dereference
            pass
        elif p == "#":  # union member payload
            v = v[1]
        elif isinstance(p, tuple):
            v = v["items"][p]
        else:
            v = v[p]
    return v


def set_path(v, path, new):
    """functional update of a value tree"""
    if not path:
        return new
    p = path[0]
    if p == "*":
        return set_path(v, path[1:], new)
    if p == "#":
        return (v[0], set_path(v[1], path[1:], new))
    if isinstance(p, tuple):
        items = dict(v["items"])
        items[p] = set_path(items[p], path[1:], new)
        return {"shape": v["shape"], "items": items}
    d = dict(v)
    d[p] = set_path(d[p], path[1:], new)
    return d


def leaf_paths(t, v, path=()):
    """(path, leaf type, leaf value) of every scalar/string leaf reachable (through non-null references too)"""
    k = t[0]
    if k in ("S", "Str"):
        yield path, t, v
    elif k == "St":
        for n, ft in t[1]:
            yield from leaf_paths(ft, v[n], path + (n,))
    elif k == "A":
        for idx, iv in v["items"].items():
            yield from leaf_paths(t[1], iv, path + (idx,))
    elif k == "R":
        if v is not None:
            yield from leaf_paths(t[1], v, path + ("*",))
    elif k == "U":
        if v is not None:
            yield from leaf_paths(t[1][v[0]], v[1], path + ("#",))


def compound_paths(t, v, path=()):
    """(path, type, value) of every nested compound (struct/array) below the root, references included"""
    k = t[0]
    if k == "St":
        for n, ft in t[1]:
            if ft[0] in ("St", "A"):
                yield path + (n,), ft, v[n]
            yield from compound_paths(ft, v[n], path + (n,))
    elif k == "A":
        for idx, iv in v["items"].items():
            if t[1][0] in ("St", "A"):
                yield path + (idx,), t[1], iv
            yield from compound_paths(t[1], iv, path + (idx,))
    elif k == "R":
        if v is not None:
            yield path + ("*",), t[1], v
            yield from compound_paths(t[1], v, path + ("*",))
    elif k == "U":
        if v is not None:
            yield path + ("#",), t[1][v[0]], v[1]
            yield from compound_paths(t[1][v[0]], v[1], path + ("#",))


# --------------------------------------------------------------------------
# input forms


def to_py(t, v):
    """plain python data"""
    k = t[0]
    if k in ("S", "Str"):
        return v
    if k == "St":
        return {n: to_py(ft, v[n]) for n, ft in t[1]}
    if k == "A":
        shape = v["shape"]

        def rec(prefix, d):
            if d == len(shape):
                return to_py(t[1], v["items"][prefix])
            return [rec(prefix + (i,), d + 1) for i in range(shape[d])]

        return rec((), 0)
    if k == "R":
        return None if v is None else to_py(t[1], v)
    if k == "U":
        if v is None:
            return None
        return (build(t[1][v[0]]).__name__, to_py(t[1][v[0]], v[1]))


def py_expressible(t, v):
    """A nested list cannot express a zero extent followed by further axes: (0, n)."""
    k = t[0]
    if k == "A":
        sh = v["shape"]
        for i, s in enumerate(sh[:-1]):
            if s == 0:
                return False
        return all(py_expressible(t[1], iv) for iv in v["items"].values())
    if k == "St":
        return all(py_expressible(ft, v[n]) for n, ft in t[1])
    if k == "R":
        return v is None or py_expressible(t[1], v)
    if k == "U":
        return v is None or py_expressible(t[1][v[0]], v[1])
    return True


ND_FORMS = ("nd", "ndF", "ndS", "ndD", "ndR", "ndFD", "ndTD", "ndB")


def nd_array(kind, v, form):
    shape = v["shape"]
    dt = np.dtype(NPDT[kind])
    if form in ("ndD", "ndFD", "ndTD"):  # other dtype, values representable in both
        dt = np.dtype("<f8") if kind[0] != "f" else np.dtype("<f4" if kind == "f64" else "<f8")
        if kind in ("i64", "u64"):
            dt = np.dtype("<i4") if kind == "i64" else np.dtype("<u4")
    a = np.zeros(shape, dtype=dt)
    for idx, iv in v["items"].items():
        a[idx] = iv
    if form in ("ndF", "ndFD"):
        a = np.asfortranarray(a)
    elif form == "ndTD":  # a transposed view of a C-contiguous array of another dtype
        a = np.ascontiguousarray(a.T).T
    elif form == "ndS":  # strided view of a larger array
        big = np.zeros(tuple(2 * s + 1 for s in shape), dtype=dt)
        sl = tuple(slice(1, 1 + 2 * s, 2) for s in shape)
        big[sl] = a
        a = big[sl]
    elif form == "ndR":  # reversed (negative strides) along the first axis
        a = a[::-1].copy()[::-1]
    elif form == "ndB":  # same item type in the non-native byte order (same values)
        a = a.astype(dt.newbyteorder())
    return a


def nd_representable(kind, v, form):
    if form not in ("ndD", "ndFD", "ndTD"):
        return True
    vals = list(v["items"].values())
    if kind[0] == "f":
        if kind == "f64":
            with np.errstate(all="ignore"):
                return all(abs(x) == float("inf") or np.float64(np.float32(x)) == x for x in vals if x == x) and not any(x != x for x in vals)
        return not any(x != x for x in vals)
    if kind in ("i64", "u64"):
        lo, hi = (-(2**31), 2**31 - 1) if kind == "i64" else (0, 2**32 - 1)
        return all(lo <= x <= hi for x in vals)
    return True


def to_nd(t, v, form="nd"):
    """ndarray form: every array of scalar items becomes an ndarray (other arrays stay lists)"""
    k = t[0]
    if k in ("S", "Str"):
        return v
    if k == "St":
        return {n: to_nd(ft, v[n], form) for n, ft in t[1]}
    if k == "A":
        if t[1][0] == "S":
            return nd_array(t[1][1], v, form)
        shape = v["shape"]
        if any(s == 0 for s in shape[:-1]):
            # a nested list cannot say (0, n): an (empty) object array carries the shape
            return np.empty(shape, dtype=object)

        def rec(prefix, d):
            if d == len(shape):
                return to_nd(t[1], v["items"][prefix], form)
            return [rec(prefix + (i,), d + 1) for i in range(shape[d])]

        return rec((), 0)
    if k == "R":
        return None if v is None else to_nd(t[1], v, form)
    if k == "U":
        if v is None:
            return None
        return (build(t[1][v[0]]).__name__, to_nd(t[1][v[0]], v[1], form))


def has_scalar_array(t):
    return any(s[0] == "A" and s[1][0] == "S" for s in subtypes(t))


def nd_ok(t, v, form):
    """is the nd form applicable to (t, v): all scalar arrays representable"""
    k = t[0]
    if k == "A":
        if t[1][0] == "S":
            return nd_representable(t[1][1], v, form)
        return all(nd_ok(t[1], iv, form) for iv in v["items"].values())
    if k == "St":
        return all(nd_ok(ft, v[n], form) for n, ft in t[1])
    if k == "R":
        return v is None or nd_ok(t[1], v, form)
    if k == "U":
        return v is None or nd_ok(t[1][v[0]], v[1], form)
    return True


class Lens:
    """constructor arguments that are the dynamic extents of an array (one positional argument each)"""

    def __init__(self, lens):
        self.lens = tuple(lens)

    def __repr__(self):
        return "Lens%r" % (self.lens,)


def construct(t, arg, **kw):
    """Public constructor call.  Top-level unionrefs take (name, data) as two arguments."""
    cls = build(t)
    if isinstance(arg, Lens):
        return cls(*arg.lens, **kw)
    if t[0] == "U":
        if arg is None:
            return cls(**kw)
        if isinstance(arg, tuple):
            return cls(*arg, **kw)
        return cls(arg, **kw)
    if t[0] in ("S", "R"):
        raise ValueError("scalars and references cannot be constructed stand-alone")
    return cls(arg, **kw)


def top_handle(t, obj):
    """what `read` should be applied to for a constructed object"""
    return obj


# --------------------------------------------------------------------------
# reader (public accessors)


def ndindex(shape):
    """np.ndindex for a shape that comes from a live handle or from buffer words: a garbage shape (a mis-read header)
    must raise at once; np.ndindex itself would spend hours inside C code, out of reach of the watchdog"""
    n = 1
    for s_ in shape:
        if int(s_) < 0:
            raise ReadMismatch("negative extent in shape %r" % (tuple(shape),))
        n *= int(s_)
    if n > 1000000:
        raise ReadMismatch("shape %r cannot be real (more than 10^6 items)" % (tuple(shape),))
    return np.ndindex(*[int(s_) for s_ in shape])


class ReadMismatch(Exception):
    pass


def pyval(x):
    return x.item() if hasattr(x, "item") else x


def read(t, x, deep=True):
    """Read a handle/value back into a value tree through the public accessors."""
    k = t[0]
    if k == "S":
        return pyval(x)
    if k == "Str":
        if not isinstance(x, str):
            raise ReadMismatch("string accessor returned %r" % type(x))
        return x
    if k == "St":
        return {n: read(ft, getattr(x, n), deep) for n, ft in t[1]}
    if k == "A":
        shape = tuple(int(s) for s in x._shape)
        items = {}
        for idx in ndindex(shape):
            items[idx] = read(t[1], x[idx if len(idx) > 1 else idx[0]], deep)
        if len(shape) == 1 and shape[0] > 0:  # integer index of numpy type too
            v2 = read(t[1], x[np.int64(shape[0] - 1)], deep)
            if not veq(v2, items[(shape[0] - 1,)]):
                raise ReadMismatch("numpy-integer index reads differently")
        n = 1
        for s in shape:
            n *= s
        if len(x) != n:
            raise ReadMismatch("len() %r != product of shape %r" % (len(x), shape))
        if deep and t[1][0] == "S":
            for meth in ("to_nplike", "to_nparray"):
                a = getattr(x, meth)()
                if tuple(a.shape) != shape:
                    raise ReadMismatch("%s shape %r != %r" % (meth, tuple(a.shape), shape))
                if a.dtype != np.dtype(NPDT[t[1][1]]):
                    raise ReadMismatch("%s dtype %r" % (meth, a.dtype))
                for idx in ndindex(shape):
                    if not veq(pyval(a[idx]), items[idx]):
                        raise ReadMismatch("%s()[%r]=%r but item access gives %r" % (meth, idx, pyval(a[idx]), items[idx]))
        return {"shape": shape, "items": items}
    if k == "R":
        return None if x is None else read(t[1], x, deep)
    if k == "U":
        if x is None:
            return None
        if hasattr(x, "get") and type(x).__name__ == build(t).__name__:  # stand-alone unionref handle
            x = x.get()
            if x is None:
                return None
        names = member_names(t)
        nm = type(x).__name__
        if nm not in names:
            raise ReadMismatch("union member %s not in %r" % (nm, names))
        i = names.index(nm)
        return (i, read(t[1][i], x, deep))
    raise ValueError(t)


# --------------------------------------------------------------------------
# documented-layout decoder (never imports xobjects)


class Bad(Exception):
    """the bytes do not follow the documented layout"""

    def __init__(self, clause, msg):
        Exception.__init__(self, "%s: %s" % (clause, msg))
        self.clause = clause


def i64(b, o):
    if o < 0 or o + 8 > len(b):
        raise Bad("in-bounds", "word at %d outside buffer of %d bytes" % (o, len(b)))
    return pystruct.unpack_from("<q", b, o)[0]


def static_size(t):
    k = t[0]
    if k == "S":
        return np.dtype(NPDT[t[1]]).itemsize
    if k == "St":
        return sum(slot(static_size(ft)) for _, ft in t[1])
    if k == "A":
        n = 1
        for d in t[2]:
            n *= d
        return slot(n * static_size(t[1]))
    if k == "R":
        return 8
    if k == "U":
        return 16
    raise Bad("static", "no static size for %s" % show(t))


def mem_strides(shape, order, isz):
    st = [0] * len(shape)
    s = isz
    for ax in reversed(order):
        st[ax] = s
        s *= shape[ax]
    return tuple(st)


def mem_indices(shape, order):
    """index tuples in memory order (order[0] slowest)"""
    for midx in ndindex([shape[a] for a in order]):
        idx = [0] * len(shape)
        for a, i in zip(order, midx):
            idx[a] = i
        yield tuple(idx)


def layout_size(t, v):
    """size in bytes the documented layout needs for value v of type t"""
    k = t[0]
    if not is_dyn(t):
        return static_size(t)
    if k == "Str":
        return slot(len(v.encode("utf8")) + 1 + 8)
    if k == "St":
        off = 8
        dyn = []
        for n, ft in t[1]:
            if is_dyn(ft):
                dyn.append((n, ft))
            else:
                off += slot(static_size(ft))
        off += 8 * (len(dyn) - 1)
        for n, ft in dyn:
            off += slot(layout_size(ft, v[n]))
        return off
    if k == "A":
        off = 8
        dynshape = any(d is None for d in t[2])
        off += 8 * sum(1 for d in t[2] if d is None)
        if dynshape and len(t[2]) > 1:
            off += 8 * len(t[2])
        n = 1
        for s in v["shape"]:
            n *= s
        if is_dyn(t[1]):
            off += 8 * n
            for idx in mem_indices(v["shape"], t[3]):
                off += layout_size(t[1], v["items"][idx])
        else:
            off += n * static_size(t[1])
        return slot(off)
    raise ValueError(t)


class Part:
    __slots__ = ("path", "t", "off", "size", "kind")

    def __init__(self, path, t, off, size, kind):
        self.path, self.t, self.off, self.size, self.kind = path, t, off, size, kind

    def __repr__(self):
        return "Part(%r,%s,%d,%d,%s)" % (self.path, show(self.t) if self.t else None, self.off, self.size, self.kind)


def decode(t, b, o, parts=None, path=(), lo=0, hi=None, follow=True, issues=None):
    """Decode the object of type t at offset o of bytes b according to the documented layout.
    Returns (value, size).  Appends Part records (absolute offsets).  [lo,hi) bounds every access.
    Deviations that do not prevent decoding (a string size that is not a whole number of slots, a part that starts
    off a slot boundary) are appended to `issues` as (clause, message) when a list is given, and raised otherwise."""
    if hi is None:
        hi = len(b)
    if parts is None:
        parts = []

    def soft(clause, msg):
        if issues is None:
            raise Bad(clause, msg)
        issues.append((clause, msg))

    def chk(off, n, what):
        if off < lo or off + n > hi:
            raise Bad("in-bounds", "%s at [%d,%d) outside [%d,%d)" % (what, off, off + n, lo, hi))

    k = t[0]
    if k == "S":
        sz = static_size(t)
        chk(o, sz, "scalar")
        parts.append(Part(path, t, o, sz, "leaf"))
        return np.frombuffer(b, dtype=NPDT[t[1]], count=1, offset=o)[0].item(), sz
    if k == "Str":
        sz = i64(b, o)
        if sz < 9 or sz > hi - o:
            raise Bad("string-size", "string at %d has size word %d" % (o, sz))
        if sz % 8:
            soft("string-slots", "string size %d is not a whole number of slots" % sz)
        raw = bytes(b[o + 8 : o + sz])
        if b"\x00" not in raw:
            raise Bad("string-nul", "string at %d not NUL terminated within its size %d" % (o, sz))
        s = raw[: raw.index(b"\x00")]
        if any(raw[raw.index(b"\x00") :]):
            raise Bad("string-pad", "non-zero bytes after the terminating NUL of string at %d" % o)
        parts.append(Part(path, t, o, sz, "leaf"))
        try:
            return s.decode("utf8"), sz
        except UnicodeDecodeError as e:
            raise Bad("string-utf8", str(e))
    if k == "St":
        fields = t[1]
        dyn = [i for i, (_, ft) in enumerate(fields) if is_dyn(ft)]
        out = {}
        if not dyn:
            off = 0
            for n, ft in fields:
                v, _ = decode(ft, b, o + off, parts, path + (n,), lo, hi, follow, issues)
                out[n] = v
                off += slot(static_size(ft))
            parts.append(Part(path, t, o, off, "struct"))
            return out, off
        size = i64(b, o)
        if size < 8 or size > hi - o:
            raise Bad("size-word", "struct at %d has size word %d (available %d)" % (o, size, hi - o))
        off = 8
        for i, (n, ft) in enumerate(fields):
            if i not in dyn:
                v, _ = decode(ft, b, o + off, parts, path + (n,), lo, hi, follow, issues)
                out[n] = v
                off += slot(static_size(ft))
        table = off
        off += 8 * (len(dyn) - 1)
        cur = off
        for j, i in enumerate(dyn):
            n, ft = fields[i]
            if j == 0:
                foff = cur
            else:
                foff = i64(b, o + table + 8 * (j - 1))
                if foff != cur:
                    raise Bad("struct-offsets", "offset word of dynamic field %s is %d, documented position is %d" % (n, foff, cur))
            if foff % 8:
                soft("field-slot", "field %s at +%d not on a slot boundary" % (n, foff))
            v, sz = decode(ft, b, o + foff, parts, path + (n,), lo, min(hi, o + size), follow, issues)
            out[n] = v
            cur = foff + slot(sz)
        if cur != size:
            raise Bad("size-word", "struct size word %d != extent %d" % (size, cur))
        parts.append(Part(path, t, o, size, "struct"))
        return out, size
    if k == "A":
        it, dims, order = t[1], t[2], t[3]
        dynshape = any(d is None for d in dims)
        dynitem = is_dyn(it)
        off = 0
        size = None
        ahi = hi
        if dynshape or dynitem:
            size = i64(b, o)
            if size < 8 or size > hi - o:
                raise Bad("size-word", "array at %d has size word %d (available %d)" % (o, size, hi - o))
            off = 8
            ahi = o + size
        shape = []
        for d in dims:
            if d is None:
                s = i64(b, o + off)
                if s < 0 or s > hi:
                    raise Bad("dims", "dimension word %d" % s)
                shape.append(s)
                off += 8
            else:
                shape.append(d)
        isz = 8 if dynitem else static_size(it)
        exp_strides = mem_strides(shape, order, isz)
        if dynshape and len(dims) > 1:
            st = tuple(i64(b, o + off + 8 * i) for i in range(len(dims)))
            off += 8 * len(dims)
            n0 = 1
            for s in shape:
                n0 *= s
            if st != exp_strides and n0 > 0:
                raise Bad("strides", "stored strides %r != documented %r for shape %r order %r" % (st, exp_strides, shape, order))
        strides = exp_strides
        items = {}
        n = 1
        for s in shape:
            n *= s
        if n * isz > hi - o:
            raise Bad("in-bounds", "array data of %d items does not fit" % n)
        if dynitem:
            table = off
            off += 8 * n
            cur = off
            for idx in mem_indices(shape, order):
                pos = sum(i * s for i, s in zip(idx, strides))
                ioff = i64(b, o + table + pos)
                if ioff != cur:
                    raise Bad("item-offsets", "item %r offset word %d != documented position %d (table in memory order)" % (idx, ioff, cur))
                if ioff % 8:
                    soft("item-slot", "item %r at +%d not on a slot boundary" % (idx, ioff))
                v, sz = decode(it, b, o + ioff, parts, path + (idx,), lo, ahi, follow, issues)
                items[idx] = v
                cur = ioff + sz
            end = slot(cur)
        else:
            for idx in ndindex(shape):
                pos = sum(i * s for i, s in zip(idx, strides))
                v, _ = decode(it, b, o + off + pos, parts, path + (idx,), lo, ahi, follow, issues)
                items[idx] = v
            end = slot(off + n * isz)
        if size is not None and size != end:
            raise Bad("size-word", "array size word %d != extent %d" % (size, end))
        parts.append(Part(path, t, o, end, "array"))
        return {"shape": tuple(shape), "items": items}, end
    if k == "R":
        rel = i64(b, o)
        parts.append(Part(path, t, o, 8, "ref"))
        if rel == NULLOFF:
            return None, 8
        if not follow:
            return ("@", o + rel), 8
        if o + rel < 0 or o + rel >= len(b):
            raise Bad("ref-target", "reference at %d points to %d outside the buffer" % (o, o + rel))
        v, _ = decode(t[1], b, o + rel, parts, path + ("*",), 0, len(b), follow, issues)
        return v, 8
    if k == "U":
        rel, tid = i64(b, o), i64(b, o + 8)
        parts.append(Part(path, t, o, 16, "uref"))
        if rel == NULLOFF:
            if tid != -1:
                raise Bad("null-uref", "null union reference with member index %d (documented -1)" % tid)
            return None, 16
        if tid < 0 or tid >= len(t[1]):
            raise Bad("uref-member", "member index %d outside 0..%d" % (tid, len(t[1]) - 1))
        if not follow:
            return ("@", o + rel, tid), 16
        if o + rel < 0 or o + rel >= len(b):
            raise Bad("ref-target", "union reference at %d points to %d outside the buffer" % (o, o + rel))
        v, _ = decode(t[1][tid], b, o + rel, parts, path + ("#",), 0, len(b), follow, issues)
        return (tid, v), 16
    raise ValueError(t)
