"""C02: generated C accessors address the same bytes as the Python view (DESIGN.md 2/C02)."""
import cffi
import numpy as np

from . import common, cons, cseam, hand, hist, place, universe, xt

PID = "C02"
_ffi = cffi.FFI()


def describe(tier):
    return dict(
        rule="case system: types are compiled in batches through the user's route (ctx.add_kernels(kernels=T._gen_kernels(), extra_classes=...)); for every "
        "type x value alphabet (several header contents per dynamic shape) x every path of T._gen_data_paths() x every in-range index tuple, every "
        "generated accessor of the path (names taken from capi.methods_from_path) is called on an object sitting at a non-zero offset of a buffer: "
        "_get == Python element; _getp - buffer base == Python offset of the denoted element (slot address for union references); _len == len(); "
        "_typeid == member index or -1; _member - base == offset of the target. One transition = one C call. Name twins: pairs of different layouts that share every generated name (array classes differing only in axis order, a struct redefined under the same name) are processed one after the other in one process, in both orders.",
        bounds=dict(types=len(types_for(tier)), values=["ramp", "extreme", "minimal"], batch=24),
        assumptions=["paths through a null reference and _member of a null union reference are not well-formed calls and are not made",
                     "two distinct types with the same generated class name are never put in one translation unit (documented xobjects limitation)"],
        must_fire=["get", "getp", "len", "typeid", "member", "twin-1"],
    )


def types_for(tier):
    if tier == "quick":
        leaves = [xt.Sc("i8"), xt.Sc("u16"), xt.Sc("f32"), xt.Sc("i64"), xt.STR]
        ts = universe.rh(tier) + universe.u1_arrays(leaves) + universe.u2_arrays(universe.SH_3) + universe.u2_urefs() + universe.u1_structs(2)[::3] + universe.u3()[::2]
    else:
        ts = universe.rh(tier) + universe.universe("quick")
    # static extents of ONE (an axis that is only ever indexed with 0) next to dynamic ones, in every position
    ts = ts + [xt.Arr(xt.Sc("f64"), (1, None, 3)), xt.Arr(xt.Sc("i16"), (None, 1, 2)), xt.Arr(xt.Sc("f32"), (1, None)), xt.Arr(xt.STR, (1, None, 2)),
               xt.St(xt.Sc("i8"), xt.Arr(xt.Sc("i64"), (1, 1, None)), xt.Sc("f64")), xt.Arr(xt.Sc("u8"), (1, None, 2), (1, 2, 0))]
    # three and four dynamic fields with static fields declared BETWEEN them (the offset slots are adjacent in memory, the field
    # numbers of the dynamic fields are not consecutive)
    D1 = xt.Arr(xt.Sc("f64"), (None,))
    ts = ts + [xt.St(D1, D1, xt.Sc("i64"), D1, xt.STR), xt.St(xt.Sc("i8"), xt.STR, xt.Sc("f32"), D1, xt.Sc("i16"), xt.STR, D1),
               xt.Arr(xt.St(xt.STR, xt.STR, xt.Sc("i64"), xt.STR), (2,))]
    # a static extent of ZERO next to a dynamic one
    ts = ts + [xt.Arr(xt.Sc("f64"), (0, None)), xt.Arr(xt.Sc("i16"), (None, 0)), xt.St(xt.Sc("i8"), xt.Arr(xt.Sc("f32"), (0, None)), xt.Sc("i64"))]
    out, seen = [], set()
    for t in ts:
        if t not in seen and t[0] in ("St", "A", "U") and cseam.self_consistent(t):
            seen.add(t)
            out.append(t)
    return out


def twin_pairs(tier):
    """pairs of different layouts that share every class / field name along their access paths"""
    STR, Sc, St, Arr = xt.STR, xt.Sc, xt.St, xt.Arr
    arrs = [Arr(Sc("i64"), (3, 4)), Arr(STR, (2, 3)), Arr(Sc("f32"), (None, 3)), Arr(Sc("i16"), (2, 3, 4)), Arr(universe.S_D1, (2, None)), Arr(Sc("u8"), (None, None, 2))]
    out = [("array", a, xt.twin(a)) for a in arrs]
    out += [("array-in-struct", St(Sc("i8"), a), St(Sc("i8"), xt.twin(a))) for a in arrs[:3]]
    # a struct redefined under the same name with another layout
    out.append(("struct", St(("coords", Arr(Sc("f64"), (2,))), ("weight", Sc("f64"))), St(("coords", Arr(Sc("f64"), (3,))), ("weight", Sc("f64")))))
    out.append(("struct", St(("tag", STR), ("v", Arr(Sc("i32"), (None,))), ("k", Sc("i64"))), St(("k", Sc("i64")), ("tag", STR), ("v", Arr(Sc("i32"), (None,))))))
    return out


def shards(tier, seed):
    common.quiet()
    ts = types_for(tier)
    ts = ts[seed % len(ts):] + ts[: seed % len(ts)]
    out = cseam.plan_batches(ts, 24)
    for kind, a, b in twin_pairs(tier):
        out.append(("twins", kind, a, b))
        out.append(("twins", kind, b, a))
    # array classes whose static extents were given as numpy integers: fields / items behind such an array
    Sc, St, Arr, STR = xt.Sc, xt.St, xt.Arr, xt.STR
    out.append(("np-extents", [St(Arr(Sc("f64"), (3,)), Sc("f64")), St(Arr(Sc("i8"), (3,)), Sc("i64"), STR), St(Sc("i8"), Arr(universe.S_S, (2,)), Sc("f32")),
                               Arr(Arr(Sc("i8"), (3,)), (2,)), St(Arr(Sc("f64"), (2, 3)), Arr(Sc("i16"), (None,)), Sc("u8"))]))
    out.append(("subclass-np", out[-1][1]))  # the same types, the array classes declared by a class statement with numpy extents
    # structs whose Field objects are taken over from a donor struct; array classes named by subclassing
    U = universe
    out.append(("shared-fields", [U.S_D1, U.S_D2, St(STR, U.A_DS, U.S_D1), St(Sc("i8"), STR, U.A_DD, STR), U.S2_ARRS, U.S2_NEST, Arr(U.S_D2, (2,)), St(U.A_DD, STR, U.S_D2, Sc("f64"), U.A_DS2)]))
    out.append(("named-subclass", [U.A_DS, U.A_DD, U.A2_STRUCT, U.A2_REFARR, U.A2_UREF, U.A2_NESTARR, St(U.A_SS, Sc("i8")), Arr(Sc("i16"), (2, 3, 4), (1, 2, 0))]))
    return out


def expected_kind(lt):
    return lt[0]


_KIND = ["np"]


def check_object(t, v, obj, ctx, res, vmode):
    """all accessor calls for one object; returns list of violations"""
    cls = xt.build(t)
    base = cseam.base_address(obj._buffer)
    out = []
    f0 = cons.feats(t, vmode, "py", "grown-shared")
    sigs = set()

    def bad(action, failure, detail, vpath, idx, lt):
        key = (action, failure)
        res.outcomes["bad:" + action] += 1
        if key in sigs:
            return
        sigs.add(key)
        f = dict(f0, action=action, last_kind=lt[0] if lt else None, n_index=len(idx), through_ref="*" in vpath, path_len=len(vpath))
        out.append(common.violation("C02." + action, failure, f, dict(type=t, type_str=xt.show(t), vmode=vmode, vpath=common.jsonable(list(vpath)), index=list(idx), action=action, decl=xt.DECL[0], placement=_KIND[0]), detail))

    def one_call(ci, c, ncalls):
        if ncalls and ci == ncalls // 2 and ci > 0:
            obj._buffer.grow(8)  # relocation between two series of calls of the same kernels
            res.events["grow-between-calls"] += 1
        base = cseam.base_address(obj._buffer)
        action, kern, idx, vpath, lt = c["action"], c["kern"], c["idx"], c["vpath"], c["lt"]
        kw = {"i%d" % k: int(i) for k, i in enumerate(idx)}
        res.transitions += 1
        common.breadcrumb("%s|%s|%s(%r)" % (xt.show(t), vmode, kern.c_name, kw))
        try:
            arg = obj
            if ci % 2 and t[0] != "U":
                arg = type(obj)._from_buffer(obj._buffer, obj._offset)  # every other call goes through a rebuilt view
            r = getattr(ctx.kernels, kern.c_name)(obj=arg, **kw)
        except Exception as e:
            bad(action, "call-raises:" + type(e).__name__, repr(e), vpath, idx, lt)
            return
        res.events[action] += 1
        if c["kind"] == "val":
            if not xt.veq(xt.pyval(r), c["expect"]):
                bad(action, "value-differs", "%s(%r) = %r, Python reads %r" % (kern.c_name, kw, r, c["expect"]), vpath, idx, lt)
        elif c["kind"] == "addr":
            got = int(_ffi.cast("intptr_t", r)) - base
            if got != c["expect"]:
                bad(action, "address-differs", "%s(%r) -> +%d, Python offset %d (object at %d)" % (kern.c_name, kw, got, c["expect"], int(obj._offset)), vpath, idx, lt)
        else:
            if int(r) != c["expect"]:
                bad(action, "result-differs", "%s(%r) = %d, Python reports %d" % (kern.c_name, kw, int(r), c["expect"]), vpath, idx, lt)

    calls = list(cseam.calls_for_object(t, v, obj))
    # what Python reports is asked of the constructor's handle for the even calls and of a view rebuilt from (buffer,
    # offset) for the odd ones: both are "the Python accessors" of the property
    vby = {}
    if t[0] != "U":
        # (the walk through the view is kept as far as it gets: a view that raises somewhere is C06's business, what it
        # reported before that is still compared with C)
        try:
            for c in cseam.calls_for_object(t, v, cls._from_buffer(obj._buffer, obj._offset)):
                vby[(c["kern"].c_name, tuple(c["idx"]))] = c
        except Exception as e:
            res.skipped["view-walk(C06's business):" + common.exc_failure(e)] += 1
    for ci, c in enumerate(calls):
        vc = vby.get((c["kern"].c_name, tuple(c["idx"]))) if ci % 2 else None
        one_call(ci, vc if vc is not None else c, len(calls))
    # second series: every reference field of a struct is REBOUND through another Python object for the same bytes (a view
    # rebuilt from the buffer); what the original handle reports afterwards is compared with C again
    rebinds = [(n, ft) for n, ft in t[1] if ft[0] in ("R", "U")] if t[0] == "St" else []
    if rebinds:
        try:
            xt.read(t, obj)  # the handle has looked at everything before
            view = cls._from_buffer(obj._buffer, obj._offset)
            v = dict(v)
            for n, ft in rebinds:
                tt = ft[1] if ft[0] == "R" else ft[1][-1]
                fresh = xt.gen(tt, "alt")
                if not xt.py_expressible(tt, fresh):
                    continue
                setattr(view, n, xt.to_py(tt, fresh) if ft[0] == "R" else (xt.build(tt).__name__, xt.to_py(tt, fresh)))
                v[n] = fresh if ft[0] == "R" else (len(ft[1]) - 1, fresh)
                res.events["rebind-through-view"] += 1
            calls = list(cseam.calls_for_object(t, v, obj))
        except Exception as e:
            res.skipped["rebind(C08's business):" + common.exc_failure(e)] += 1
            calls = []
        for ci, c in enumerate(calls):
            one_call(ci, c, 0)
    return out


def run_twins(shard, tier, seed):
    """two types whose generated names coincide are processed one after the other in this process, each in its own
    module: what is generated for the second must not depend on the first"""
    _, kind, a, b = shard
    res = common.ShardResult()
    for k, t in enumerate((a, b)):
        if kind == "struct":
            xt.build_as(t, "TwinStruct")
        r = run_shard([t], tier, seed)
        for v in r.violations:
            v["features"]["twin"] = kind
            v["features"]["twin_position"] = k
            v["case"]["twin_of"] = common.jsonable(b if k == 0 else a)
        res.merge(r)
        res.events["twin-%d" % k] += 1
    return res


def run_shard(types, tier, seed):
    if types and types[0] == "twins":
        return run_twins(types, tier, seed)
    if types and types[0] in ("np-extents", "subclass-np", "shared-fields", "named-subclass"):
        xt.DECL[0] = types[0]  # this process only
        types = types[1]
    res = common.ShardResult()
    # process history: objects of every other type of the batch exist BEFORE the API of their classes is generated (two
    # objects of different dynamic extents, read in full): what the classes remember about objects they have built is not
    # part of their layout
    for ti, t in enumerate(types):
        if ti % 2 == 0:
            for vmode in ("extreme", "alt"):
                try:
                    v = xt.gen(t, vmode)
                    xt.read(t, xt.construct(t, xt.to_py(t, v) if xt.py_expressible(t, v) else xt.to_nd(t, v, "nd")))
                    res.events["object-before-api"] += 1
                except Exception:
                    pass  # (C01's business)
    try:
        ctx, kernels = cseam.build_module(types)
    except Exception as e:
        # the emitted source does not compile / is refused by cffi: that is a violation for every type of the batch (bisect to name it)
        culprit = None
        for t in types:
            try:
                cseam.build_module([t])
            except Exception as e1:
                culprit = (t, e1)
                break
        t, e1 = culprit if culprit else (types[0], e)
        res.violations.append(common.violation("C02.build", "api-does-not-build:" + type(e1).__name__, xt.features(t), dict(type=t, type_str=xt.show(t)), repr(e1)[-1500:]))
        return res
    n = 0
    for ti, t in enumerate(types):
        for vmode in ("ramp", "extreme", "minimal", "ramp:bytearray", "ramp:oddrefs"):
            kind = "np"
            if vmode.endswith(":bytearray"):  # the same calls on an object living in a BufferByteArray
                if ti % 3:
                    continue
                vmode, kind = "ramp", "ba"
            elif vmode.endswith(":oddrefs"):  # referents at odd distances from the references that denote them
                if not xt.has_refs(t) or t[0] == "U" or not xt.py_expressible(t, xt.gen(t, "ramp")):
                    continue
                vmode, kind = "ramp", "oddrefs"
            v = xt.gen(t, vmode)
            _KIND[0] = kind
            try:
                obj, buf = cseam.place_object(t, v, seed, kind)
                if not xt.veq(xt.read(t, obj), v):
                    res.skipped["initial-readback(C01's business)"] += 1
                    continue
            except Exception as e:
                res.skipped["construct(C01's business):" + common.exc_failure(e)] += 1
                continue
            res.cases += 1
            vs = check_object(t, v, obj, ctx, res, vmode)
            res.violations.extend(vs)
            if not vs:
                n += 1
                res.outcomes["ok"] += 1
    res.states = res.nontrivial = n
    res.max_depth = 1
    if types:
        res.sample(dict(batch_types=[xt.show(t) for t in types[:3]], kernels=len(kernels)))
    return res


def on_crash(res, shard, exitcode, crumb):
    """the worker died inside a generated accessor (wild address): that is the property failing, not the harness"""
    if exitcode is not None and exitcode < 0 and crumb:
        res.violations.append(common.violation("C02.crash", "accessor-crashes:signal%d" % -exitcode, dict(signal=-exitcode), dict(types=[xt.show(t) for t in (list(shard[2:4]) if shard and shard[0] == "twins" else shard[1] if shard and isinstance(shard[0], str) else shard)[:4]], decl=shard[0] if shard and isinstance(shard[0], str) else "index", last_call=crumb), "worker killed by signal %d during %s" % (-exitcode, crumb)))
    else:
        res.notes.append("HARNESS-ERROR: worker died with exit code %r (%s)" % (exitcode, crumb[:200]))


def replay(case):
    t = xt.retuple(case["type"])
    xt.DECL[0] = case.get("decl", "index")
    res = common.ShardResult()
    ctx, _ = cseam.build_module([t])
    v = xt.gen(t, case.get("vmode", "ramp"))
    _KIND[0] = case.get("placement", "np")
    obj, buf = cseam.place_object(t, v, 0, _KIND[0])
    return check_object(t, v, obj, ctx, res, case.get("vmode", "ramp"))
