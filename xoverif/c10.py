"""C10: assigning one element changes that element and nothing else (DESIGN.md 2/C10)."""
from . import common, cons, hand, hist, place, universe, xt

PID = "C10"
PLACES = ["dirtyhole", "grown"]


def opts(tier):
    return dict(vias=("h", "v", "n"), vals=2, compounds=True, grow=True, deep_leaves=4 if tier == "quick" else 8, index_kinds=("h-i8", "h-u8", "h-i16"), resplit=True)


def describe(tier):
    return dict(
        rule="history system: from every validated initial object of the history sub-universe, BFS over {set leaf (2 values) | set whole nested "
        "struct/array of equal size from plain data, ndarray, xobject | grow the buffer} x {constructor handle, view rebuilt from (buffer, offset), "
        "nested view}; after every transition a full re-read must equal the value tree updated at that path only and the structural snapshot "
        "(every size, shape, stride, item/field offset, reference target) must be unchanged; written bytes must lie in the assigned element. "
        "States deduplicated on buffer bytes + model.",
        bounds=dict(types=len(universe.rh(tier)), depth=2 if tier == "quick" else 3, placements=PLACES, values=["ramp", "extreme"] if tier == "thorough" else ["ramp"]),
        assumptions=["fitting = same layout (same shapes, same encoded string sizes) for whole-compound assignment; strings up to the slot capacity fixed at creation for leaf assignment"],
        must_fire=["set", "setc", "grow"],
    )


def shards(tier, seed):
    ts = universe.rh(tier)
    vm = ["ramp"] if tier == "quick" else ["ramp", "extreme"]
    out = [(t, v, p) for t in ts for v in vm for p in (PLACES + (["ba-hole"] if tier == "thorough" else []))]
    # objects that allocate targets for their references, in a buffer aligned to 16 bytes (padding between regions)
    out += [(t, v, "grown16") for t in ts if xt.has_refs(t) for v in vm]
    # strings created from integer capacities (rooms that are not whole slots): every text that fits the capacity is a fitting value
    out += [(t, "cap", "dirtyhole") for t in ts if any(s_[0] == "Str" for s_ in xt.subtypes(t)) and xt.py_expressible(t, xt.gen(t, "ramp"))]
    return out[seed % len(out):] + out[: seed % len(out)]


def judge(s, ev, res):
    t = s.t
    out = []
    try:
        snap0 = hand.snap(t, s.h)
        part = None
        if ev[0] in ("set", "setc"):
            b0 = place.whole(s.h._buffer)
            try:
                parts = []
                xt.decode(t, b0, s.h._offset, parts)
                cand = [p for p in parts if p.path == tuple(ev[2])]
                part = cand[-1] if cand else None
            except xt.Bad:
                part = None
    except Exception as e:
        res.skipped["pre-snapshot:" + common.exc_failure(e)] += 1
        return [], False
    try:
        with common.Watchdog(30):
            hist.apply_event(s, ev)
    except common.Watchdog.Expired:
        return [common.violation("C10.terminates", "assignment-hangs", {}, {}, "")], False
    except Exception as e:
        if ev[0] == "setc" and ev[3] == "xobj-resplit":
            res.outcomes["misfit-refused"] += 1  # not a fitting value: every part keeps the room fixed at its creation
            return [], False
        res.outcomes["refused"] += 1
        return [common.violation("C10.accepts-fitting", "refused:" + common.exc_failure(e), {}, {}, repr(e))], False
    # value locality
    try:
        with common.Watchdog(30):
            got = xt.read(t, s.h)
            gotv = xt.read(t, hist.view_of(s)) if t[0] != "U" else got
            goto = xt.read(t, s.v0) if s.v0 is not None else got
    except Exception as e:
        res.outcomes["reread-raises"] += 1
        return [common.violation("C10.locality", "reread-raises:" + common.exc_failure(e), {}, {}, repr(e))], False
    res.oracles["reread"] += 1
    if not xt.veq(got, s.mv):
        res.outcomes["value-mismatch"] += 1
        out.append(common.violation("C10.locality", "value-mismatch", {}, {}, "first difference at %r: %s" % xt.vdiff(got, s.mv)))
    elif not xt.veq(gotv, s.mv):
        out.append(common.violation("C10.locality", "value-mismatch-through-view", {}, {}, "first difference at %r: %s" % xt.vdiff(gotv, s.mv)))
    elif not xt.veq(goto, s.mv):
        out.append(common.violation("C10.locality", "value-mismatch-through-older-view", {}, {}, "a view that exists since construction reads: first difference at %r: %s" % xt.vdiff(goto, s.mv)))
    if out:
        return out, False
    # structure unchanged
    try:
        snap1 = hand.snap(t, s.h)
    except Exception as e:
        return [common.violation("C10.structure", "snapshot-raises:" + common.exc_failure(e), {}, {}, repr(e))], False
    res.oracles["structure"] += 1
    if ev[0] in ("setc", "set", "bind2"):
        unders = [tuple(ev[2])] + ([tuple(ev[3])] if ev[0] == "bind2" else [])
        a, b = snap0, snap1
        if ev[0] in ("setc", "bind2"):
            # the assigned value decides every reference at or below the assigned path (plain data creates new targets, None
            # unbinds): those records, and everything beyond such a reference, are judged by the value re-read above
            def cut(sn):
                out = {}
                for k, v in sn.items():
                    if any(k[: len(under)] == under and (v[0] in ("ref", "uref", "null") or any(p in ("*", "#") for p in k[len(under):])) for under in unders):
                        continue
                    out[k] = v
                return out

            a, b = cut(a), cut(b)
        if a != b:
            ks = [k for k in a if a.get(k) != b.get(k)] + [k for k in b if k not in a]
            res.outcomes["structure-changed"] += 1
            out.append(common.violation("C10.structure", "structure-changed", {}, {}, "at %r: %r -> %r" % (ks[0], a.get(ks[0]), b.get(ks[0]))))
    elif snap0 != snap1:
        ks = [k for k in snap0 if snap0.get(k) != snap1.get(k)]
        out.append(common.violation("C10.structure", "structure-changed-by-grow", {}, {}, "at %r" % (ks[:1],)))
    # byte locality of leaf assignments
    if not out and ev[0] == "set" and part is not None:
        b1 = place.whole(s.h._buffer)
        n = min(len(b0), len(b1))
        lo, hi = part.off, part.off + part.size
        bad = [i for i in range(n) if b0[i] != b1[i] and not (lo <= i < hi)]
        res.oracles["byte-locality"] += 1
        if bad:
            out.append(common.violation("C10.byte-locality", "bytes-outside-element", {}, {}, "element [%d,%d) but bytes %r changed" % (lo, hi, bad[:8])))
    if not out:
        res.outcomes["ok:" + ev[0]] += 1
    return out, not out


def run_shard(shard, tier, seed):
    t, vmode, pname = shard
    res = common.ShardResult()
    depth = 2 if tier == "quick" else 3
    seen = hist.explore(t, vmode, pname, depth, opts(tier), judge, res, seed)
    if seen:
        res.states = len(seen)
        res.nontrivial = len(seen)
    if seen and len(res.samples) < 1:
        res.sample(dict(type=xt.show(t), vmode=vmode, placement=pname, states=len(seen)))
    return res


def replay(case):
    return hist.replay_case(case, opts("quick"), judge)
