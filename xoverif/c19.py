"""C19: dictionary and JSON forms rebuild an equal object (DESIGN.md 2/C19)."""
import itertools
import json

import numpy as np

from . import common, cons, place, universe, xt

PID = "C19"

# field menu: name -> (maker of ftype, default variants [(label, kwargs for xo.Field, default value or None)], candidate values)
def menu():
    import xobjects as xo

    if not _menu:

        class C19Inner(xo.HybridClass):
            _xofields = {"a": xo.Int64, "b": xo.Float64[:]}

        class C19InnerR(xo.HybridClass):  # a nested class with a RENAMED field
            _xofields = {"a": xo.Int64, "v": xo.Float64[3]}
            _rename = {"a": "alpha"}

        class C19Leaf(xo.HybridClass):  # three levels, renamed fields on the two lower ones
            _xofields = {"q_xo": xo.Int64, "w": xo.Float64[2]}
            _rename = {"q_xo": "q"}

        class C19Mid(xo.HybridClass):
            _xofields = {"leaf_xo": C19Leaf, "z": xo.Int64}
            _rename = {"leaf_xo": "leaf"}

        class C19InnerS(xo.HybridClass):  # every field has a computable default
            _xofields = {"a": xo.Int64, "v": xo.Float64[3]}

        class C19Plain(xo.Struct):  # a plain struct (not a hybrid class) holding a 2-D array
            a = xo.Int64
            m = xo.Float64[2, 2]

        _menu.update(
            # a field whose type is a plain struct / a reference to one: its dictionary form is made by the struct itself
            ps=dict(ftype=C19Plain, defaults=[("none", {}, None)], values=[("diff", dict(a=3, m=[[1.0, 2.0], [3.0, 4.0]])), ("zero", dict(a=0, m=[[0.0, 0.0], [0.0, 0.0]]))]),
            # (also declared with a NON-NULL default, and nulled by attribute assignment after the construction)
            pr=dict(ftype=xo.Ref[C19Plain], defaults=[("none", {}, None), ("factory-object", dict(default_factory=lambda: C19Plain(a=7, m=[[1.0, 1.0], [1.0, 1.0]])), dict(a=7, m=[[1.0, 1.0], [1.0, 1.0]]))],
                    values=[("diff", dict(a=4, m=[[5.0, 6.0], [7.0, 8.0]])), ("zero", dict(a=0, m=[[0.0, 0.0], [0.0, 0.0]])), ("nulled-afterwards", ("assign", None))]),
            # a reference to an object of a hybrid class with a renamed field, BOUND to a dressed object of the same buffer
            rr=dict(ftype=xo.Ref(C19InnerR), defaults=[("none", {}, None)], values=[("diff", ("bind", C19InnerR, dict(alpha=3, v=[4.0, 5.0, 6.0]))), ("zero", ("bind", C19InnerR, dict(alpha=0, v=[0.0, 0.0, 0.0])))]),
            # static shape, items of dynamic size
            ss=dict(ftype=xo.String[3], defaults=[("none", {}, None)], values=[("diff", ["a", "bc", "def"]), ("empty", ["", "", ""])]),
            sc=dict(ftype=xo.Int64, defaults=[("none", {}, None), ("default", dict(default=42), 42), ("factory", dict(default_factory=lambda: 7), 7)], values=[("zero", 0), ("diff", 5), ("near", 43), ("big", 2**40 + 42)]),
            # values *near* the default (same after a lossy cast, prefix / extension of it) are part of the alphabet:
            # an elision test that compares in the wrong type or only a prefix drops them
            fl=dict(ftype=xo.Float64, defaults=[("none", {}, None), ("default", dict(default=1.5), 1.5), ("factory-int", dict(default_factory=lambda: 0), 0), ("factory-int3", dict(default_factory=lambda: 3), 3)],
                    values=[("zero", 0.0), ("diff", -2.25), ("near", 0.5), ("near-neg", -0.25), ("near3", 3.75), ("near-default", 1.5000000000000002)]),
            st=dict(ftype=xo.String, defaults=[("none", {}, None), ("default", dict(default="abc"), "abc")], values=[("empty", ""), ("diff", "hello wörld"), ("extends-default", "abcdef"), ("prefix-of-default", "ab"), ("case", "ABC")]),
            sa=dict(ftype=xo.Float64[3], defaults=[("none", {}, None), ("default", dict(default=[1.0, 2.0, 3.0]), [1.0, 2.0, 3.0]), ("factory-ints", dict(default_factory=lambda: [1, 2, 3]), [1, 2, 3])],
                    values=[("zero", [0.0, 0.0, 0.0]), ("diff", [4.0, 5.5, 6.0]), ("near", [1.5, 2.25, 3.0]), ("one-off", [1.0, 2.0, 3.5])]),
            da=dict(ftype=xo.Int32[:], defaults=[("none", {}, None), ("default", dict(default=[4, 5]), [4, 5]), ("factory", dict(default_factory=lambda: xo.Int32[:]([9])), [9])], values=[("empty", []), ("diff", [1, 2, 3]), ("zero", [0]), ("extends-default", [4, 5, 6]), ("prefix-of-default", [4])]),
            hy=dict(ftype=C19Inner, defaults=[("none", {}, None)], values=[("diff", dict(a=3, b=[1.0, 2.0])), ("empty", dict(a=0, b=[]))]),
            # nested object of a class with a renamed field, given as an object (the dictionary of the holder then holds python names)
            hr=dict(ftype=C19InnerR, defaults=[("none", {}, None)], values=[("diff", lambda: C19InnerR(alpha=3, v=[4.0, 5.0, 6.0])), ("zero", lambda: C19InnerR(alpha=0, v=[0.0, 0.0, 0.0]))]),
            h3=dict(ftype=C19Mid, defaults=[("none", {}, None)], values=[("diff", lambda: C19Mid(leaf=C19Leaf(q=7, w=[1.0, 2.0]), z=3)), ("zero", lambda: C19Mid(leaf=C19Leaf(q=0, w=[0.0, 0.0]), z=0))]),
            # a nested class whose holder declares ITS OWN default for the nested object (two levels of defaults)
            hs=dict(ftype=C19InnerS, defaults=[("none", {}, None), ("default", dict(default={"a": 5, "v": [1.0, 2.0, 3.0]}), dict(a=5, v=[1.0, 2.0, 3.0]))],
                    values=[("diff", dict(a=3, v=[4.0, 5.0, 6.0])), ("inner-class-defaults", dict(a=0, v=[0.0, 0.0, 0.0])), ("half", dict(a=5, v=[0.0, 0.0, 0.0]))]),
        )
    return _menu


_menu = {}
NESTED = ("hy", "hs", "hr", "h3", "ps", "pr", "rr")


def describe(tier):
    return dict(
        rule="(a) every hybrid class with 1-2 fields over {Int64, Float64, String, Float64[3], Int32[:], nested hybrid} x {no default, default=, default_factory=} "
        "x {no rename, first field renamed} x per field values {equal to the declared default, different, zero, empty}: H.from_dict(h.to_dict()) equals h "
        "on every field (read through the attributes and through _xobject), the dictionary survives json.dumps with xo.JEncoder, and a field with a "
        "declared default is absent from the dictionary iff its value equals that default; (a') class families {base, derived class declaring the field again "
        "with another default, derived class inheriting the declaration} serialised in all 6 orders: each class elides exactly its own default and round-trips; then a class is defined from {'pre': Int64, **Base._xofields}: dictionaries made before still rebuild equal objects and the new class round-trips. (b) every reference-free type of the universe in which every "
        "array at any depth is one-dimensional x 3 value alphabets: T(x._to_json()) equals x.",
        bounds=dict(field_kinds=["sc", "fl", "st", "sa", "da", "ss", "hy", "hs", "hr", "h3", "ps", "pr", "rr"], json_types=len(json_types(tier))),
        assumptions=["N-D arrays are outside the property (documented as unsupported by _to_json)"],
        must_fire=["to_dict", "from_dict", "to_json"],
    )


def field_variants():
    out = []
    for k, m in menu().items():
        for lab, kw, dv in m["defaults"]:
            out.append((k, lab, kw, dv))
    return out


def json_types(tier):
    def ok(t):
        if xt.has_refs(t):
            return False
        return all(len(s[2]) == 1 for s in xt.subtypes(t) if s[0] == "A")

    ts = [t for t in universe.universe(tier) + universe.rh(tier) if ok(t)]
    seen, out = set(), []
    for t in ts:
        if t not in seen:
            seen.add(t)
            out.append(t)
    return out


def shards(tier, seed):
    common.quiet()
    fv = field_variants()
    out = [("hyb", i) for i in range(len(fv))]
    out += [("family", i) for i in range(len(fv)) if fv[i][3] is not None and fv[i][0] not in NESTED]
    out += [("json", c) for c in cons.chunk(json_types(tier), 16)]
    return out[seed % len(out):] + out[: seed % len(out)]


def veq(a, b):
    if isinstance(a, dict) or isinstance(b, dict):
        return isinstance(a, dict) and isinstance(b, dict) and a.keys() == b.keys() and all(veq(a[k], b[k]) for k in a)
    if isinstance(a, str) or isinstance(b, str):
        return a == b
    try:
        x, y = np.asarray(a), np.asarray(b)
        return x.shape == y.shape and bool(np.array_equal(x, y))
    except Exception:
        return a == b


def read_hybrid(h, fields):
    """{xoname: python value} through the attributes and through _xobject; raises on mirror mismatch"""
    out = {}
    for pyname, xoname, kind in fields:
        pv = getattr(h, pyname)
        xv = getattr(h._xobject, xoname)
        if kind == "hy":
            v = dict(a=int(pv.a), b=np.asarray(pv.b).tolist())
            v2 = dict(a=int(xv.a), b=[float(xv.b[i]) for i in range(len(xv.b))])
        elif kind == "hr":
            v = dict(a=int(pv.alpha), v=np.asarray(pv.v).tolist())
            v2 = dict(a=int(xv.a), v=[float(xv.v[i]) for i in range(3)])
        elif kind == "h3":
            v = dict(z=int(pv.z), q=int(pv.leaf.q), w=np.asarray(pv.leaf.w).tolist())
            v2 = dict(z=int(xv.z), q=int(xv.leaf_xo.q_xo), w=[float(xv.leaf_xo.w[i]) for i in range(2)])
        elif kind == "hs":
            v = dict(a=int(pv.a), v=np.asarray(pv.v).tolist())
            v2 = dict(a=int(xv.a), v=[float(xv.v[i]) for i in range(3)])
        elif kind == "rr":
            v = dict(a=int(pv.alpha if hasattr(pv, "alpha") else pv.a), v=[float(x) for x in (np.asarray(pv.v) if hasattr(pv, "_xobject") else [pv.v[i] for i in range(3)])])
            v2 = dict(a=int(xv.a), v=[float(xv.v[i]) for i in range(3)])
        elif kind == "pr" and (pv is None or xv is None):
            v, v2 = (None if pv is None else "object"), (None if xv is None else "object")
        elif kind in ("ps", "pr"):
            v = dict(a=int(pv.a), m=[[float(pv.m[i, j]) for j in range(2)] for i in range(2)])
            v2 = dict(a=int(xv.a), m=[[float(xv.m[i, j]) for j in range(2)] for i in range(2)])
        elif kind == "ss":
            v = [str(pv[i]) for i in range(3)]
            v2 = [str(xv[i]) for i in range(3)]
        elif kind in ("sa", "da"):
            v = np.asarray(pv).tolist()
            v2 = [xv[i] for i in range(len(xv))]
        else:
            v, v2 = pv, xv
        if not veq(v, v2):
            raise AssertionError("attribute %s=%r but _xobject.%s=%r" % (pyname, v, xoname, v2))
        out[xoname] = v
    return out


def make_hybrid(H, kw):
    """H(**kw); values ("bind", cls, data) are objects made in the new object's buffer and bound afterwards"""
    plain = {k: (v() if callable(v) else v) for k, v in kw.items() if not (isinstance(v, tuple) and v and v[0] in ("bind", "assign"))}
    h = H(**plain)
    for k, v in kw.items():
        if isinstance(v, tuple) and v and v[0] == "bind":
            setattr(h, k, v[1](_buffer=h._buffer, **v[2]))
        elif isinstance(v, tuple) and v and v[0] == "assign":
            setattr(h, k, v[1])  # the field is left to its default by the constructor and assigned afterwards
    return h


def run_hybrid(first, tier, res):
    import xobjects as xo

    fv = field_variants()
    f1 = fv[first]
    sig = set()

    def bad(oracle, failure, feat, case, detail):
        res.outcomes["bad:" + failure.split(":")[0]] += 1
        key = (oracle, failure, feat.get("field_kind"), feat.get("default_kind"), feat.get("renamed"), feat.get("empty_dynamic"), feat.get("copy_to_cpu"))
        if key in sig:
            return
        sig.add(key)
        res.violations.append(common.violation(oracle, failure, feat, case, detail))

    combos = [(f1,)] + [(f1, f2) for f2 in fv]
    n = 0
    for combo in combos:
        # no rename / the first field gets another python name / a python name that starts with an underscore
        for rename in (False, True, "_"):
            names = ["f%d" % i for i in range(len(combo))]
            xof = {}
            for nm, (k, lab, kw, dv) in zip(names, combo):
                ft = menu()[k]["ftype"]
                xof[nm] = xo.Field(getattr(ft, "_XoStruct", ft), **kw) if kw else ft
            ren = {names[0]: ("_" if rename == "_" else "py_") + names[0]} if rename else {}
            n += 1
            H = type("C19H%d_%d" % (first, n), (xo.HybridClass,), {"_xofields": xof, "_rename": ren})
            fields = [(ren.get(nm, nm), nm, k) for nm, (k, lab, kw, dv) in zip(names, combo)]
            vals = []
            for k, lab, kw, dv in combo:
                cand = list(menu()[k]["values"])
                if dv is not None:
                    cand.append(("equal-default", dv))
                vals.append(cand)
            for choice in itertools.product(*vals):
                res.cases += 1
                feat = dict(kinds=[c[0] for c in combo], defaults=[c[1] for c in combo], rename=rename, values=[c[0] for c in choice])
                case = dict(part="hyb", first=first, combo=[(c[0], c[1]) for c in combo], rename=rename, values=[c[0] for c in choice])
                kw = {}
                for (pyname, xoname, k), (vlab, v) in zip(fields, choice):
                    kw[pyname] = v
                try:
                    h = make_hybrid(H, kw)
                    before = read_hybrid(h, fields)
                except Exception as e:
                    res.skipped["construct(C01/C18's business):" + common.exc_failure(e)] += 1
                    continue
                res.transitions += 1
                res.events["to_dict"] += 1
                try:
                    d = h.to_dict()
                    if not any(c[0] in ("ps", "pr", "ss", "rr") for c in combo):  # those hold array objects (no JSON form claimed)
                        json.dumps(d, cls=xo.JEncoder)
                except Exception as e:
                    bad("C19.to_dict", "to_dict-raises:" + common.exc_failure(e), feat, case, repr(e))
                    continue
                # default elision
                for (pyname, xoname, k), (klab, dlab, dkw, dv), (vlab, v) in zip(fields, combo, choice):
                    if dv is None or k in NESTED:
                        continue  # nested objects are always written out
                    res.oracles["elision"] += 1
                    equal = veq(v, dv)
                    present = pyname in d
                    if equal and present:
                        bad("C19.elision", "default-not-omitted", dict(feat, field_kind=k, default_kind=dlab, renamed=pyname != xoname), case, "field %s (%s) equals its declared default %r but is in the dictionary: %r" % (pyname, k, dv, d.get(pyname)))
                    if not equal and not present:
                        bad("C19.elision", "non-default-omitted", dict(feat, field_kind=k, default_kind=dlab, renamed=pyname != xoname), case, "field %s (%s) = %r differs from its default %r but is missing" % (pyname, k, v, dv))
                # history: the object is WRITTEN after its dictionary was taken (every field gets another value of the menu
                # where one fits); the dictionary describes the state in which it was taken
                for (pn, xn, k), (vlab, v), cand in zip(fields, choice, vals):
                    w = next((c[1] for c in cand if not veq(c[1], v)), None)
                    if w is None or (isinstance(w, tuple) and w and w[0] in ("bind", "assign")):
                        continue
                    try:
                        setattr(h, pn, w() if callable(w) else w)
                        res.events["write-after-to_dict"] += 1
                    except Exception:
                        pass  # a value of another size does not fit: C11's business
                res.transitions += 1
                res.events["from_dict"] += 1
                try:
                    h2 = H.from_dict(d)
                    after = read_hybrid(h2, fields)
                except Exception as e:
                    bad("C19.from_dict", "from_dict-raises:" + common.exc_failure(e), dict(feat, empty_dynamic=any(c[0] == "empty" for c in choice)), case, "%r ; dict=%r" % (e, {k: (np.asarray(v).tolist() if not isinstance(v, (dict, str)) else v) for k, v in d.items()}))
                    continue
                res.oracles["roundtrip"] += 1
                if not veq(before, after):
                    bad("C19.roundtrip", "rebuilt-object-differs", feat, case, "%r -> %r" % (before, after))
                    continue
                # the dictionary made from the object itself (copy_to_cpu=False: no copy into the default context first)
                res.transitions += 2
                res.events["to_dict"] += 1
                res.events["from_dict"] += 1
                try:
                    now = read_hybrid(h, fields)  # (the object has been written since `before` was read)
                    d2 = h.to_dict(copy_to_cpu=False)
                    after4 = read_hybrid(H.from_dict(d2), fields)
                except Exception as e:
                    bad("C19.from_dict", "from_dict-raises:" + common.exc_failure(e), dict(feat, copy_to_cpu=False), case, repr(e))
                    continue
                if not veq(now, after4):
                    bad("C19.roundtrip", "rebuilt-object-differs", dict(feat, copy_to_cpu=False), case, "to_dict(copy_to_cpu=False): %r -> %r" % (now, after4))
                    continue
                # the same rebuild into memory that was used before (a freed region full of old bytes) and over a live object
                ok = True
                for where in ("dirty-region", "over-live-object"):
                    res.transitions += 1
                    res.events["from_dict"] += 1
                    try:
                        if where == "dirty-region":
                            kw = place.place("dirtybig" if (res.cases % 2) else "dirtybig2", 64, res.cases).kw
                            kw = dict(_buffer=kw["_buffer"])
                        else:
                            other = {pn: (w if not veq(w, v) else None) for (pn, xn, k), (vlab, v), cand in zip(fields, choice, vals) for w in [next((c[1] for c in cand if not veq(c[1], v)), None)]}
                            if any(w is None for w in other.values()):
                                continue
                            live = make_hybrid(H, other)
                            kw = dict(_buffer=live._buffer, _offset=live._offset)
                        h3 = H.from_dict(d, **kw)
                        after3 = read_hybrid(h3, fields)
                    except Exception as e:
                        if where == "over-live-object":
                            res.skipped["rebuild-over-live-object-raises:" + common.exc_failure(e)] += 1
                            continue
                        bad("C19.from_dict", "from_dict-raises:" + common.exc_failure(e), dict(feat, where=where), case, repr(e))
                        ok = False
                        continue
                    if not veq(before, after3):
                        bad("C19.roundtrip", "rebuilt-object-differs", dict(feat, where=where), case, "rebuilt %s: %r -> %r" % (where, before, after3))
                        ok = False
                if ok:
                    res.outcomes["ok:hybrid"] += 1
                    res.states += 1


def run_family(first, tier, res):
    """class families: a hybrid class, a class derived from it that declares the field again with another default, and one that
    inherits the declaration; objects of the classes are serialised in every order (what one class's to_dict leaves behind in the
    process must not change what another class's to_dict does)."""
    import xobjects as xo

    k, lab, kw, dv = field_variants()[first]
    if dv is None or k in NESTED:
        return  # families are about scalar / string / array defaults
    m = menu()[k]
    other = dict(m["values"])["diff"]
    third = m["values"][0][1]
    sig = set()
    n = 0
    for order in itertools.permutations(("base", "redeclared", "inherits")):
        for rename in (False, True):
            n += 1
            ren = {"f0": "py_f0"} if rename else {}
            Base = type("C19B%d_%d" % (first, n), (xo.HybridClass,), {"_xofields": {"f0": xo.Field(m["ftype"], **kw), "k": xo.Int64}, "_rename": ren})
            Red = type("C19R%d_%d" % (first, n), (Base,), {"_xofields": {"f0": xo.Field(m["ftype"], default=other), "k": xo.Int64}, "_rename": ren})
            Inh = type("C19I%d_%d" % (first, n), (Base,), {})
            classes = dict(base=(Base, dv), redeclared=(Red, other), inherits=(Inh, dv))
            pyname = ren.get("f0", "f0")
            fields = [(pyname, "f0", k), ("k", "k", "sc")]
            for who in order:
                H, own = classes[who]
                for vlab, v in (("equal-base-default", dv), ("equal-redeclared-default", other), ("third", third)):
                    res.cases += 1
                    feat = dict(kinds=[k], defaults=[lab], rename=rename, family=who, order="-".join(order), values=[vlab])
                    case = dict(part="family", first=first, order=list(order), rename=rename, who=who, value=vlab)

                    def bad(oracle, failure, detail):
                        key = (oracle, failure, who, order.index(who), rename)
                        if key not in sig:
                            sig.add(key)
                            res.outcomes["bad:" + failure] += 1
                            res.violations.append(common.violation(oracle, failure, dict(feat, field_kind=k, default_kind=lab, renamed=rename, position=order.index(who)), case, detail))

                    try:
                        h = H(**{pyname: v, "k": 5})
                        before = read_hybrid(h, fields)
                    except Exception as e:
                        res.skipped["construct(C01/C18's business):" + common.exc_failure(e)] += 1
                        continue
                    res.transitions += 2
                    res.events["to_dict"] += 1
                    res.events["from_dict"] += 1
                    try:
                        d = h.to_dict()
                        h2 = H.from_dict(d)
                        after = read_hybrid(h2, fields)
                    except Exception as e:
                        bad("C19.from_dict", "family-roundtrip-raises:" + common.exc_failure(e), repr(e))
                        continue
                    res.oracles["elision"] += 1
                    equal, present = veq(v, own), pyname in d
                    if equal and present:
                        bad("C19.elision", "default-not-omitted", "%s (%s in order %s): %s=%r equals the default declared for this class but is in the dictionary" % (H.__name__, who, order, pyname, v))
                    if not equal and not present:
                        bad("C19.elision", "non-default-omitted", "%s (%s in order %s): %s=%r differs from the default %r declared for this class but is missing" % (H.__name__, who, order, pyname, v, own))
                    res.oracles["roundtrip"] += 1
                    if not veq(before, after):
                        bad("C19.roundtrip", "rebuilt-object-differs", "%s (%s in order %s): %r -> %r" % (H.__name__, who, order, before, after))
                    else:
                        res.outcomes["ok:family"] += 1
                        res.states += 1
            # a class defined LATER from the base's declarations plus a field in front ({"pre": ..., **Base._xofields}, the usual way
            # to extend a hybrid class): dictionaries made before must rebuild equal objects after, and the new class round-trips
            res.cases += 1
            feat = dict(kinds=[k], defaults=[lab], rename=rename, family="extended-later", order="-".join(order))
            case = dict(part="family", first=first, order=list(order), rename=rename, who="extended-later")
            try:
                hb = Base(**{pyname: third, "k": 5})
                before = read_hybrid(hb, fields)
                d = hb.to_dict()
                Ext = type("C19E%d_%d" % (first, n), (xo.HybridClass,), {"_xofields": {"pre": xo.Int64, **Base._xofields}, "_rename": ren})
                res.transitions += 2
                res.events["from_dict"] += 2
                after = read_hybrid(Base.from_dict(d), fields)
                he = Ext(**{pyname: other, "k": 6, "pre": 9})
                efields = [("pre", "pre", "sc")] + fields
                eb = read_hybrid(he, efields)
                ea = read_hybrid(Ext.from_dict(he.to_dict()), efields)
            except Exception as e:
                key = ("C19.from_dict", "extended-later", rename)
                if key not in sig:
                    sig.add(key)
                    res.violations.append(common.violation("C19.from_dict", "family-roundtrip-raises:" + common.exc_failure(e), dict(feat, field_kind=k, default_kind=lab, renamed=rename), case, repr(e)))
                continue
            res.oracles["roundtrip"] += 2
            if not veq(before, after) or not veq(eb, ea) or not veq(eb, {"pre": 9, "f0": other, "k": 6}):
                key = ("C19.roundtrip", "extended-later", rename)
                if key not in sig:
                    sig.add(key)
                    res.violations.append(common.violation("C19.roundtrip", "rebuilt-object-differs", dict(feat, field_kind=k, default_kind=lab, renamed=rename), case,
                                                           "base object %r -> %r after a class was defined from {'pre': Int64, **Base._xofields}; extended object given %r reads %r -> %r" % (before, after, {"pre": 9, "f0": other, "k": 6}, eb, ea)))
            else:
                res.outcomes["ok:family"] += 1


def jsonify(x):
    """what a JSON encoder/decoder round trip makes of _to_json output (numpy scalars to python numbers)"""
    if isinstance(x, dict):
        return {k: jsonify(v) for k, v in x.items()}
    if isinstance(x, (list, tuple)):
        return [jsonify(v) for v in x]
    if hasattr(x, "item"):
        return x.item()
    return x


def run_json(types, tier, res):
    for t in types:
        for vmode in list(cons.VMODES) + ["extreme:wide"]:
            # extreme:wide - the extreme values with three items along every dynamic axis (the largest and the smallest numbers
            # of a kind side by side in one array; the plain extreme alphabet gives one-dimensional arrays a single item)
            v = xt.gen(t, "extreme", dynext=(3, 3, 3)) if vmode == "extreme:wide" else xt.gen(t, vmode)
            if not xt.py_expressible(t, v):
                continue
            # the object whose JSON form is taken is built from plain data, and from NumPy arrays where the type has arrays of
            # numbers: the round trip is judged from any object that reads back what it was given
            for src in ("py", "nd"):
                if src == "nd" and not (xt.has_scalar_array(t) and xt.nd_ok(t, v, "nd")):
                    continue
                json_case(t, vmode, v, src, res)


def json_case(t, vmode, v, src, res):
    f = cons.feats(t, vmode, src, "ctx")
    cid = dict(part="json", type=t, type_str=xt.show(t), vmode=vmode, source=src)
    try:
        x = xt.construct(t, xt.to_py(t, v) if src == "py" else xt.to_nd(t, v, "nd"))
        if not xt.veq(xt.read(t, x), v):
            res.skipped["initial-readback(C01's business)"] += 1
            return
    except Exception as e:
        res.skipped["construct(C01's business):" + common.exc_failure(e)] += 1
        return
    res.cases += 1
    res.transitions += 2
    res.events["to_json"] += 1
    try:
        j = x._to_json()
    except Exception as e:
        res.violations.append(common.violation("C19.to_json", "to_json-raises:" + common.exc_failure(e), f, cid, repr(e)))
        return
    for form, arg in (("raw", j), ("decoded", jsonify(j))):
        try:
            y = xt.construct(t, arg)
            got = xt.read(t, y)
        except Exception as e:
            res.violations.append(common.violation("C19.json-roundtrip", "rebuild-raises:" + common.exc_failure(e), dict(f, json_form=form), cid, "%r ; json=%r" % (e, str(j)[:300])))
            break
        res.oracles["json-roundtrip"] += 1
        if not xt.veq(got, v):
            res.violations.append(common.violation("C19.json-roundtrip", "rebuilt-object-differs", dict(f, json_form=form), cid, "first difference at %r: %s" % xt.vdiff(got, v)))
            break
    else:
        res.outcomes["ok:json"] += 1
        res.states += 1

def run_shard(shard, tier, seed):
    res = common.ShardResult()
    if shard[0] == "hyb":
        run_hybrid(shard[1], tier, res)
        if shard[1] == 0:
            res.sample(dict(part="hybrid", first_field=field_variants()[0][:2], second_fields=len(field_variants())))
    elif shard[0] == "family":
        run_family(shard[1], tier, res)
    else:
        run_json(shard[1], tier, res)
        # one violation per (oracle, failure) per shard
        seen = {}
        for v in res.violations:
            seen.setdefault((v["oracle"], v["failure"]), v)
        res.violations = list(seen.values())
    res.nontrivial = res.states
    res.max_depth = 2
    return res


def replay(case):
    res = common.ShardResult()
    if case.get("part") == "json":
        run_json([xt.retuple(case["type"])], "quick", res)
    elif case.get("part") == "family":
        run_family(case["first"], "quick", res)
    else:
        run_hybrid(case["first"], "quick", res)
    return res.violations
