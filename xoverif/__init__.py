"""xoverif: bounded exhaustive model checking of xsuite/xobjects (see /verif/DESIGN.md)."""
import os, sys
_repo = os.environ.get("XOVERIF_REPO")
if _repo:
    sys.path.insert(0, _repo)
