"""C03: an object never writes outside the bytes reserved for it (DESIGN.md 2/C03)."""
import hashlib

import numpy as np

from . import common, cons, hand, hist, place, universe, xt

PID = "C03"
FORMS = ["py", "py-args", "nd", "ndF", "ndS", "ndD", "cap", "xobj-other", "xobj-ctx", "xobj-nested", "xobj-nested-lastslack", "xobj-slack", "ref-same", "ref-foreign", "xobj-view", "xobj-nested-view", "xobj-capslack", "xobj-twin"] + cons.LEN
PL = ["dirtyhole", "dirtyhole2", "hole", "explicit", "explicit-i8", "explicit-al16", "al16-hole", "ba-hole", "grown", "al64"]


def describe(tier):
    return dict(
        rule="(a) case system over the whole universe x input forms x placements with live, poison-filled neighbours flush on both sides and dirty "
        "reused memory (two complementary poisons): bytes that differ before/after construction must lie inside the extent returned by the traced "
        "allocate for the object or inside extents allocated during the construction (reference targets); the reported size equals the allocated "
        "extent and the documented size; every nested part lies inside its parent and siblings are disjoint (handles and decoder). "
        "(b) history system: after every fitting assignment (leaf or whole compound, through handle / view / nested view) the changed bytes lie inside "
        "extents allocated for the object since its construction began; neighbours read back unchanged.",
        bounds=dict(universe="as C01", forms=FORMS, placements=PL, history_types=len(universe.rh(tier)), depth=1 if tier == "quick" else 3),
        assumptions=["fresh storage (never handed out before) may hold whatever the library puts there; only previously existing bytes are compared"],
        must_fire=["construct", "set", "setc"],
    )


def shards(tier, seed):
    ts = universe.universe(tier, "all+3" if tier == "thorough" else "all")
    out = [("cons", c) for c in cons.chunk(ts, 64 if tier == "quick" else 192)]
    vm = ["ramp"] if tier == "quick" else ["ramp", "extreme"]
    out += [("hist", t, v, p) for t in universe.rh(tier) for v in vm for p in ("dirtyhole", "dirtyhole2")]
    # process history: before an array type with a non-identity axis order is used, its LAYOUT TWIN (the array whose extents
    # are this one's in memory order, in C order: same strides in memory order) has been built and instantiated
    Sc, Arr, St = xt.Sc, xt.Arr, xt.St
    out.append(("layout-twins", [Arr(Sc("f64"), (3, 2), (1, 0)), Arr(Sc("i16"), (2, 3, 4), (1, 2, 0)), Arr(Sc("f32"), (None, 2), (1, 0)), Arr(Sc("i64"), (None, None), (1, 0)),
                                 St(Sc("i8"), Arr(Sc("f64"), (2, 3), (1, 0)), Sc("i64")), Arr(universe.S_S, (2, 3), (1, 0)), Arr(Sc("u8"), (4, 2, 3), (2, 0, 1))]))
    # large objects copied across contexts (whatever is staged through the host in pieces must add up to the object)
    out += [("big-xctx", k) for k in range(4)]
    return out[seed % len(out):] + out[: seed % len(out)]


BIG_COUNTS = list(range(8184, 8200)) + list(range(16376, 16392)) + [24571, 24575, 24577, 32763, 32769]


def run_big(part, res, seed, only=None):
    """objects of 64 KiB to 256 KiB (every item count of two windows around 64 KiB and 128 KiB, some beyond) copy-constructed
    from an object of ANOTHER context into a hole with live neighbours flush on both sides, both buffer kinds; the source is not
    the last thing in its storage.  Oracle: the object lands in the hole, no byte outside it changes, the copy equals the source."""
    A = xt.build(xt.Arr(xt.Sc("f64"), (None,), (0,)))
    S = xt.build(xt.St(xt.Sc("i64"), xt.Arr(xt.Sc("f64"), (None,), (0,)), xt.Sc("i8")))
    for ci, n in enumerate(BIG_COUNTS):
        if ci % 4 != part:
            continue
        for destkind in ("np", "ba"):
            for root in ("array", "struct"):
                if only is not None and (n, destkind, root) != only:
                    continue
                res.cases += 1
                res.transitions += 1
                res.events["construct-big"] += 1
                f = dict(root=root, form="xobj-ctx", place="hole:" + destkind, big=True)
                cid = dict(part="big-xctx", count=n, dest=destkind, root=root)
                try:
                    sb = place.traced("np", 0, context=place.ctx(1))
                    data = np.arange(n, dtype="f8") + 0.5
                    src = A(data, _buffer=sb) if root == "array" else S(f0=7, f1=data, f2=3, _buffer=sb)
                    sb.update_from_buffer(sb.allocate(64), place.poison(64, seed + 7))
                    size = int(src._size)
                    pre, post = 13, 37
                    db = place.traced(destkind, pre + size + post, default_alignment=1)
                    a, h, c = db.allocate(pre, align=False), db.allocate(size, align=False), db.allocate(post, align=False)
                    db.update_from_buffer(a, place.poison(pre, seed + 1))
                    db.update_from_buffer(c, place.poison(post, seed + 2))
                    db.update_from_buffer(h, place.poison(size, seed + 3))
                    db.free(h, size)
                    before = place.whole(db)
                except Exception as e:
                    res.skipped["prepare-big:" + common.exc_failure(e)] += 1
                    continue
                try:
                    obj = type(src)(src, _buffer=db, _offset="packed")
                except Exception as e:
                    res.violations.append(common.violation("C03.construct", "raises:" + common.exc_failure(e), f, cid, repr(e)[:500]))
                    continue
                after = place.whole(db)
                off = int(obj._offset)
                res.oracles["confinement"] += 1
                bad = outside(before, after, [(off, off + size)]) if len(after) == len(before) else ["capacity changed"]
                got = (obj if root == "array" else obj.f1).to_nparray()
                if off != h or int(obj._size) != size:
                    res.violations.append(common.violation("C03.size-equals-extent", "reported-size-differs", f, cid, "landed at %d size %d, hole [%d,%d)" % (off, int(obj._size), h, h + size)))
                elif bad:
                    res.outcomes["bad:confinement"] += 1
                    res.violations.append(common.violation("C03.confinement", "construct-writes-outside", f, cid, "object occupies [%d,%d); bytes %r outside it changed" % (off, off + size, bad[:8])))
                elif not np.array_equal(got, data):
                    res.violations.append(common.violation("C03.confinement", "copy-differs", f, cid, "first differing item %d" % int(np.nonzero(got != data)[0][0])))
                else:
                    res.outcomes["ok:construct-big"] += 1
                    res.states += 1
    res.nontrivial = res.states
    res.max_depth = 1
    return res


def allowed_regions(log):
    return [(o, o + s) for k, o, s in [e for e in log if e[0] == "alloc"]]


def outside(before, after, regions):
    n = min(len(before), len(after))
    a = np.frombuffer(before, dtype="u1", count=n)
    b = np.frombuffer(after, dtype="u1", count=n)
    idx = np.nonzero(a != b)[0]
    bad = []
    for i in idx:
        i = int(i)
        if not any(lo <= i < hi for lo, hi in regions):
            bad.append(i)
    return bad


def containment(t, h):
    """nested parts inside their parent, siblings disjoint (from the live handles)"""
    if t[0] == "U":
        x = h.get()
        if x is None:
            return None
        names = xt.member_names(t)
        t = t[1][names.index(type(x).__name__)]
        h = x
    raw = place.whole(h._buffer)
    for path, ct, ch in hand.handles(t, h):
        lo, hi = int(ch._offset), int(ch._offset) + hand.size_of(ch)
        kids = []
        if ct[0] == "St":
            for n, ft in ct[1]:
                off = int(ch._get_offset(n))
                v = getattr(ch, n)
                if ft[0] in ("St", "A"):
                    sz = hand.size_of(v)
                elif ft[0] == "Str":
                    sz = xt.i64(raw, off)  # the size word the string reports
                else:
                    sz = xt.static_size(ft)
                kids.append((n, off, off + sz))
        else:
            shape = tuple(int(s) for s in ch._shape)
            for idx in xt.ndindex(shape):
                off = int(ch._get_offset(idx))
                if ct[1][0] in ("St", "A"):
                    sz = hand.size_of(ch[idx if len(idx) > 1 else idx[0]])
                elif ct[1][0] == "Str":
                    sz = xt.i64(raw, off)
                else:
                    sz = xt.static_size(ct[1])
                kids.append((idx, off, off + sz))
        for name, a, b in kids:
            if a < lo or b > hi:
                return ("C03.nested-inside-parent", "part-outside-parent", "part %r of %r at [%d,%d) outside parent [%d,%d)" % (name, path, a, b, lo, hi))
        ks = sorted(kids, key=lambda k: k[1])
        for (n1, a1, b1), (n2, a2, b2) in zip(ks, ks[1:]):
            if a2 < b1 and b1 > a1 and b2 > a2:
                return ("C03.siblings-disjoint", "siblings-overlap", "%r [%d,%d) overlaps %r [%d,%d) in %r" % (n1, a1, b1, n2, a2, b2, path))
    return None


def judge_cons(o, vmode, res):
    t = o.t
    cid = cons.case_id(t, vmode, o.form, o.pname)
    f = cons.feats(t, vmode, o.form, o.pname)
    if o.error is not None:
        res.skipped["construct-raises(C01's business):" + common.exc_failure(o.error)] += 1
        return None
    pl = o.pl
    obj = o.obj
    off = int(obj._offset)
    rep = hand.size_of(obj)
    allocs = [e for e in o.log if e[0] == "alloc"]
    own = [e for e in allocs if e[1] == off]
    if pl.kw.get("_offset") is not None and not isinstance(pl.kw.get("_offset"), str):
        own = [("alloc", off, o.size_model if o.size_model is not None else rep)]  # explicit offset: the extent is the caller's allocation
    if not own:
        return common.violation("C03.extent", "object-not-at-an-allocated-offset", f, cid, "offset %d, allocations %r" % (off, allocs[:6]))
    ext = own[0][2]
    res.oracles["size"] += 1
    gs = int(obj._get_size()) if hasattr(obj, "_get_size") else rep
    if rep != ext or gs != ext:
        res.outcomes["size-vs-extent"] += 1
        return common.violation("C03.size-equals-extent", "reported-size-differs", f, cid, "reports _size=%d _get_size()=%d, reserved extent %d" % (rep, gs, ext))
    if o.size_model is not None and ext != o.size_model:
        return common.violation("C03.size-equals-extent", "extent-vs-documented-size", f, cid, "reserved %d, documented layout needs %d" % (ext, o.size_model))
    if pl.expect_off is not None and off != pl.expect_off:
        return common.violation("C03.extent", "unexpected-offset", f, cid, "landed at %d, the prepared hole is at %d" % (off, pl.expect_off))
    regions = allowed_regions(o.log)
    if pl.kw.get("_offset") is not None and not isinstance(pl.kw.get("_offset"), str):
        regions.append((off, off + ext))
    bad = outside(o.before, o.after, regions)
    res.oracles["confinement"] += 1
    if bad:
        res.outcomes["writes-outside"] += 1
        return common.violation("C03.confinement", "construct-writes-outside", f, cid, "bytes %r changed; allowed regions %r" % (bad[:8], regions[:6]))
    nb = place.check_neighbours(pl, obj._buffer)
    if nb:
        return common.violation("C03.neighbours", "neighbour-changed", f, cid, repr(nb))
    try:
        c = containment(t, obj)
    except Exception as e:
        res.skipped["containment-walk(C01's business):" + common.exc_failure(e)] += 1
        c = None
    res.oracles["containment"] += 1
    if c:
        res.outcomes[c[1]] += 1
        return common.violation(c[0], c[1], f, cid, c[2])
    res.outcomes["ok:" + f["formclass"]] += 1
    return None


def judge_hist(s, ev, res):
    buf = s.h._buffer
    before = place.whole(buf)
    n0 = len(buf.log)
    parent = None
    if ev[0] == "set" and s.t[0] != "U" and any(q in ("*", "#") for q in ev[2]):
        # a leaf reached through a reference: where the compound that holds it lies NOW, located through a fresh view
        # (the old target of a reference that was re-bound meanwhile is not part of the object any more)
        try:
            pt, ph = hand.nav(s.t, hist.view_of(s), ev[2][:-1])
            if pt[0] == "U" and hasattr(ph, "get"):
                ph = ph.get()
            parent = (int(ph._offset), int(ph._offset) + hand.size_of(ph))
        except Exception:
            parent = None
    try:
        with common.Watchdog(30):
            hist.apply_event(s, ev)
    except Exception as e:
        res.skipped["event-refused(C10's business):" + common.exc_failure(e)] += 1
        return [], False
    after = place.whole(buf)
    regions = allowed_regions(buf.log)
    if parent is not None:
        regions = [parent]
        res.oracles["confinement-to-current-target"] += 1
    if ev[0] in ("set", "setc") and not any(q in ("*", "#") for q in ev[2]) and s.t[0] != "U":
        # the element is not reached through a reference: only the object's own extent and what this very assignment
        # allocated may change (a referent bound BEFORE, e.g. the old target of a reference that is being rebound, may not)
        try:
            regions = [(int(s.h._offset), int(s.h._offset) + hand.size_of(s.h))] + allowed_regions(buf.log[n0:])
        except Exception:
            pass
    bad = outside(before, after, regions)
    res.oracles["confinement"] += 1
    if bad:
        res.outcomes["writes-outside"] += 1
        return [common.violation("C03.confinement", "assignment-writes-outside", {}, {}, "bytes %r changed; extents allocated for the object %r" % (bad[:8], regions[:6]))], False
    nb = place.check_neighbours(s.pl, buf)
    if nb:
        return [common.violation("C03.neighbours", "neighbour-changed", {}, {}, repr(nb))], False
    res.outcomes["ok:" + ev[0]] += 1
    return [], True


OPTS = dict(vias=("h", "v", "n"), vals=2, compounds=True, grow=False, deep_leaves=4)


def places_for(tier):
    def f(t, form):
        if form == "py":
            return PL if (tier == "thorough" or xt.depth(t) <= 1) else ["dirtyhole", "dirtyhole2", "grown"]
        if form in ("cap", "xobj-slack", "xobj-capslack", "xobj-nested-lastslack"):
            return ["dirtybig", "dirtybig2"]
        if form in ("ref-same", "ref-foreign"):
            return ["cap0"]
        if form in ("nd", "ndD"):  # NumPy sources (same and another dtype width) also into a hole of a BufferByteArray with live neighbours
            return ["dirtyhole", "dirtyhole2", "ba-hole"]
        return ["dirtyhole", "dirtyhole2"]

    return f


def layout_twin_prelude(t):
    for a in xt.subtypes(t):
        if a[0] == "A" and tuple(a[3]) != tuple(range(len(a[2]))):
            v = xt.gen(a, "ramp")
            shape = tuple(v["shape"][i] for i in a[3])  # the extents in memory order
            tw = ("A", a[1], tuple(None if a[2][i] is None else a[2][i] for i in a[3]), tuple(range(len(a[2]))))
            try:
                tv = xt.gen(tw, "ramp")
                if tuple(tv["shape"]) != shape:
                    tv = {"shape": shape, "items": {idx: xt.gen(a[1], "ramp") for idx in np.ndindex(*shape)}}
                xt.construct(tw, xt.to_py(tw, tv))
            except Exception:
                pass


def run_shard(shard, tier, seed):
    res = common.ShardResult()
    if shard[0] == "big-xctx":
        return run_big(shard[1], res, seed)
    if shard[0] == "layout-twins":
        for t in shard[1]:
            layout_twin_prelude(t)
        shard = ("cons", shard[1])
    if shard[0] == "cons":
        n = 0
        for t, vmode, v, form, pname in cons.enumerate_cases(shard[1], cons.VMODES, FORMS, places_for(tier)):
            res.cases += 1
            try:
                o = cons.execute(t, v, form, pname, seed)
            except Exception as e:
                res.skipped["prepare:" + common.exc_failure(e)] += 1
                continue
            res.transitions += 1
            res.events["construct"] += 1
            viol = judge_cons(o, vmode, res)
            if viol:
                res.violations.append(viol)
            else:
                n += 1
                if len(res.samples) < 1 and o.error is None and xt.has_refs(t):
                    res.sample(dict(type=xt.show(t), vmode=vmode, form=form, placement=pname, allocations=o.log[:6]))
        res.states = res.nontrivial = n
        res.max_depth = max(res.max_depth, 1)
    else:
        _, t, vmode, pname = shard
        # types holding references get one more level in the quick tier: what an older handle remembers about a reference
        # only matters after the reference was re-bound through another handle
        seen = hist.explore(t, vmode, pname, (2 if xt.has_refs(t) else 1) if tier == "quick" else 3, OPTS, judge_hist, res, seed)
        if seen:
            res.states = res.nontrivial = len(seen)
    return res


def replay(case):
    if case.get("part") == "big-xctx":
        return run_big(BIG_COUNTS.index(case["count"]) % 4, common.ShardResult(), 0, only=(case["count"], case["dest"], case["root"])).violations
    if "ev_idx" in case:
        return hist.replay_case(case, OPTS, judge_hist)
    t = xt.retuple(case["type"])
    v = xt.gen(t, case["vmode"])
    o = cons.execute(t, v, case["form"], case["place"], 0)
    viol = judge_cons(o, case["vmode"], common.ShardResult())
    return [viol] if viol else []
