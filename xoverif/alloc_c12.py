"""C12 check: see xoverif.alloc"""
from . import alloc, common, tlc_replay

PID = "C12"
WANT = "C12"


def describe(tier):
    return dict(
        rule="(1) TLA+ specification tla/XAlloc.tla model checked by TLC to fixpoint (invariants NoOverlap/InBounds/Aligned/Partition/Accounting on the spec), complete "
        "labelled state graph dumped and EVERY edge replayed on the real XBuffer (offset, capacity, free set, free total compared with the successor node); "
        "(2) BFS over all allocate/free/grow histories on the real XBuffer (state = history, rebuilt by replay; "
        "deduplicated on a generic snapshot of the allocator's attributes + live regions); every transition judged "
        "against the byte-map specification; a state is non-trivial/distinct if its canonical form is new",
        bounds=dict(sizes=alloc.SIZES, grows=alloc.GROWS, max_live=alloc.MAXLIVE, capacities=alloc.CAPS, alignments=alloc.ALS,
                    grow_steps=[str(g) for g in alloc.GSS], plan={"quick": "depth 4 on 240 configurations (+1 allocate-only look-ahead layer), depth 5 on 8", "thorough": "depth 5 on 120 BufferNumpy configurations, depth 5/6 on a 12-configuration slice of both kinds"}[tier]),
        assumptions=["regions are freed whole, exactly once", "stored bytes never influence allocator control flow (tags excluded from the state key)",
                     "growth amount is the implementation's choice (only 'never shrinks' and 'only when nothing fits' are demanded)"],
        must_fire=["alloc", "free", "grow", "tla-alloc", "tla-free", "tla-grow"],
    )


def shards(tier, seed):
    pl = alloc.plan(tier)
    pl = pl[seed % len(pl):] + pl[:seed % len(pl)]
    return [("cfg", cfg, depth) for cfg, depth in pl] + [("many",)] + [("tla", c) for c in tlc_replay.configs(tier)]


def run_shard(shard, tier, seed):
    res = common.ShardResult()
    if shard[0] == "tla":
        for oracle, failure, detail, case in tlc_replay.replay_graph(shard[1], res, WANT):
            f = dict(kind="BufferNumpy", cap0=shard[1]["InitCap"], alignment=shard[1]["Align"], grow_step=shard[1]["GrowStep"] or None, regime="tla-graph")
            res.violations.append(common.violation(oracle, failure, f, case, detail))
        res.nontrivial += res.states
    elif shard[0] == "many":
        alloc.regime_many_growths(res, WANT, seed)
    else:
        alloc.explore(shard[1], shard[2], seed, res, WANT)
    return res


def replay(case):
    if "tla_config" in case:
        return tlc_replay.replay_case(case)
    return alloc.replay_case(case, WANT)
