"""C12 check: see xoverif.alloc"""
from . import alloc, common

PID = "C12"
WANT = "C12"


def describe(tier):
    return dict(
        rule="BFS over all allocate/free/grow histories on the real XBuffer (state = history, rebuilt by replay; "
        "deduplicated on a generic snapshot of the allocator's attributes + live regions); every transition judged "
        "against the byte-map specification; a state is non-trivial/distinct if its canonical form is new",
        bounds=dict(sizes=alloc.SIZES, grows=alloc.GROWS, max_live=alloc.MAXLIVE, capacities=alloc.CAPS, alignments=alloc.ALS,
                    grow_steps=[str(g) for g in alloc.GSS], plan={"quick": "depth 4 on 240 configurations (+1 allocate-only look-ahead layer), depth 5 on 8", "thorough": "depth 5 on 120 BufferNumpy configurations, depth 5/6 on a 12-configuration slice of both kinds"}[tier]),
        assumptions=["regions are freed whole, exactly once", "stored bytes never influence allocator control flow (tags excluded from the state key)",
                     "growth amount is the implementation's choice (only 'never shrinks' and 'only when nothing fits' are demanded)"],
        must_fire=["alloc", "free", "grow"],
    )


def shards(tier, seed):
    pl = alloc.plan(tier)
    pl = pl[seed % len(pl):] + pl[:seed % len(pl)]
    return [("cfg", cfg, depth) for cfg, depth in pl] + [("many",)]


def run_shard(shard, tier, seed):
    res = common.ShardResult()
    if shard[0] == "many":
        alloc.regime_many_growths(res, WANT, seed)
    else:
        alloc.explore(shard[1], shard[2], seed, res, WANT)
    return res


def replay(case):
    return alloc.replay_case(case, WANT)
