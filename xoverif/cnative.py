"""Stand-alone execution of the generated accessor API outside cffi (C07 sanitizer route, C15 host-executed
OpenCL / CUDA specialisations).

Python writes, per object, the exact byte image of its buffer and a binary call script; a small C driver loads the
image into malloc(size) exactly (ASan red zones on both sides), runs the script through generated uniform wrappers
and reports, per call, the 8 result bytes and the range of image bytes the call changed."""
import os
import struct as pystruct
import subprocess

import numpy as np

from . import common, cseam, xt

DRIVER = r"""
#include <stdio.h>
#include <stdlib.h>
#include <string.h>
#include <stdint.h>
typedef int (*wfun)(char *obj, const int64_t *idx, const unsigned char *val, unsigned char *out);
extern wfun WTAB[];
extern int NW;
char *g_image = 0;
typedef struct { int64_t fid; int64_t objoff; int64_t idx[8]; unsigned char val[8]; } call_t;
typedef struct { unsigned char out[8]; int64_t lo; int64_t hi; } res_t;
int main(int argc, char **argv) {
  FILE *fi = fopen(argv[1], "rb");
  FILE *fo = fopen(argv[2], "wb");
  if (!fi || !fo) return 3;
  int64_t n;
  while (fread(&n, 8, 1, fi) == 1) {
    char *img = (char *) malloc(n ? n : 1);
    char *shadow = (char *) malloc(n ? n : 1);
    if (n && fread(img, 1, n, fi) != (size_t) n) return 4;
    memcpy(shadow, img, n);
    g_image = img;
    int64_t nc;
    if (fread(&nc, 8, 1, fi) != 1) return 5;
    for (int64_t k = 0; k < nc; k++) {
      call_t c; res_t r;
      if (fread(&c, sizeof c, 1, fi) != 1) return 6;
      memset(&r, 0, sizeof r);
      if (c.fid < 0 || c.fid >= NW) return 7;
      fprintf(stderr, "CALL %lld\n", (long long) k); fflush(stderr);
      WTAB[c.fid](img + c.objoff, c.idx, c.val, r.out);
      r.lo = -1; r.hi = -1;
      for (int64_t i = 0; i < n; i++) if (img[i] != shadow[i]) { if (r.lo < 0) r.lo = i; r.hi = i + 1; shadow[i] = img[i]; }
      fwrite(&r, sizeof r, 1, fo); fflush(fo);
    }
    /* image after all calls, for the final state comparison */
    fwrite(img, 1, n, fo); fflush(fo);
    free(img); free(shadow);
    fprintf(stderr, "OBJDONE\n"); fflush(stderr);
  }
  fclose(fo);
  return 0;
}
"""

CALL_FMT = "<qq8q8s"
CALL_SIZE = pystruct.calcsize(CALL_FMT)
RES_SIZE = 24

TARGET_DEFS = {
    "opencl": [],
    "cuda": ["-D__global__=", "-D__device__=", "-D__host__="],
}


def api_source(types, target):
    """(specialised text of the class APIs of `types` for `target`, plain-C declarations, sorted classes)"""
    import xobjects as xo
    from xobjects.context import sort_classes, sources_from_classes, _concatenate_sources
    from xobjects.specialize_source import specialize_source

    classes = sort_classes([xt.build(t) for t in types])
    srcs = sources_from_classes(classes)
    if target in ("cpu_serial", "cpu_openmp"):
        ctx = xo.ContextCpu(omp_num_threads=0 if target == "cpu_serial" else 2)
        _, text = ctx._build_sources(classes=classes, extra_headers=[], specialize=True)
    elif target == "opencl":
        from xobjects.context_pyopencl import openclheader

        source, folders = _concatenate_sources(list(openclheader) + srcs)
        text = specialize_source(source, specialize_for="opencl", search_in_folders=folders)
    elif target == "cuda":
        from xobjects.context_cupy import cudaheader

        source, folders = _concatenate_sources(list(cudaheader) + srcs)
        source = "\n".join(['extern "C"{', source, "}"])
        text = specialize_source(source, specialize_for="cuda", search_in_folders=folders)
    else:
        raise ValueError(target)
    decls = "\n".join(cls._gen_c_decl({}) for cls in classes)
    return text, decls, classes


def gen_wrappers(types):
    """uniform wrappers for every accessor of every path of every type.  Returns (C text, table) where
    table[(type index, path index, action)] = (fid, kernel)"""
    lines = ["extern char *g_image;"]
    names = []
    table = {}
    for ti, t in enumerate(types):
        cls = xt.build(t)
        for pi, path in enumerate(cls._gen_data_paths()):
            for action, kern in cseam.path_methods(cls, path).items():
                if action not in ("get", "set", "getp", "len", "typeid", "member"):
                    continue
                fid = len(names)
                wname = "w_%d" % fid
                nidx = sum(1 for a in kern.args if a.name and a.name.startswith("i") and a.name[1:].isdigit())
                args = ", ".join(["(%s) obj" % cls._c_type] + ["idx[%d]" % k for k in range(nidx)])
                body = ["int %s(char *obj, const int64_t *idx, const unsigned char *val, unsigned char *out) {" % wname]
                if action == "get":
                    ct = kern.ret.atype._c_type
                    body.append("  %s r = %s(%s); memcpy(out, &r, sizeof r);" % (ct, kern.c_name, args))
                elif action == "set":
                    ct = kern.args[-1].atype._c_type
                    body.append("  %s v; memcpy(&v, val, sizeof v); %s(%s, v);" % (ct, kern.c_name, args))
                elif action in ("getp", "member"):
                    body.append("  char *r = (char *) %s(%s); int64_t d = r - g_image; memcpy(out, &d, 8);" % (kern.c_name, args))
                else:
                    body.append("  int64_t r = %s(%s); memcpy(out, &r, 8);" % (kern.c_name, args))
                body.append("  return 0; }")
                lines.extend(body)
                names.append(wname)
                table[(ti, pi, action)] = (fid, kern)
    lines.append("typedef int (*wfun)(char *, const int64_t *, const unsigned char *, unsigned char *);")
    lines.append("wfun WTAB[] = {%s};" % ", ".join(names or ["0"]))
    lines.append("int NW = %d;" % len(names))
    return "\n".join(lines), table


class BuildError(Exception):
    pass


def run(cmd, cwd, timeout=600):
    p = subprocess.run(cmd, cwd=cwd, stdout=subprocess.PIPE, stderr=subprocess.PIPE, timeout=timeout)
    return p.returncode, p.stdout.decode("utf8", "replace"), p.stderr.decode("utf8", "replace")


def build(workdir, types, target, sanitize=False, tag="drv"):
    """compile API + wrappers + driver for `target`; returns (exe path, wrapper table, api text)"""
    text, decls, classes = api_source(types, target)
    wrappers, table = gen_wrappers(types)
    pre = "#include <stdint.h>\n#include <string.h>\n"
    san = ["-fsanitize=address,undefined", "-fno-sanitize-recover=all", "-fno-omit-frame-pointer", "-g"] if sanitize else []
    exe = os.path.join(workdir, tag + "_" + target)
    drv = os.path.join(workdir, tag + "_main.c")
    with open(drv, "w") as f:
        f.write(DRIVER)
    if target in ("cpu_serial", "cpu_openmp"):
        # /*gpufun*/ becomes `static inline` on CPU: wrappers live in the same translation unit
        api = os.path.join(workdir, tag + "_api_%s.c" % target)
        with open(api, "w") as f:
            f.write(pre + text + "\n" + wrappers + "\n")
        omp = ["-fopenmp"] if target == "cpu_openmp" else []
        cmd = ["clang", "-std=c99", "-O1", "-w"] + san + omp + [api, drv, "-o", exe]
        rc, out, err = run(cmd, workdir)
        if rc:
            raise BuildError("%s\n%s" % (" ".join(cmd), err[-3000:]))
        return exe, table, text
    wr = os.path.join(workdir, tag + "_wr_%s.c" % target)
    with open(wr, "w") as f:
        f.write(pre + decls + "\n" + wrappers + "\n")
    obj = os.path.join(workdir, tag + "_api_%s.o" % target)
    if target == "opencl":
        api = os.path.join(workdir, tag + "_api.cl")
        with open(api, "w") as f:
            f.write(text + "\n")
        cmd = ["clang", "-x", "cl", "-cl-std=CL1.2", "-Xclang", "-finclude-default-header", "-O1", "-w", "-c", api, "-o", obj]
    else:
        api = os.path.join(workdir, tag + "_api.cu.cpp")
        with open(api, "w") as f:
            f.write(text + "\n")
        cmd = ["g++", "-x", "c++", "-O1", "-w"] + TARGET_DEFS["cuda"] + san + ["-c", api, "-o", obj]
    rc, out, err = run(cmd, workdir)
    if rc:
        raise BuildError("%s\n%s" % (" ".join(cmd), err[-3000:]))
    cc = "clang" if target == "opencl" else "gcc"
    cmd = [cc, "-std=c99", "-O1", "-w"] + (san if target == "cuda" else []) + [wr, drv, obj, "-o", exe]
    rc, out, err = run(cmd, workdir)
    if rc:
        raise BuildError("%s\n%s" % (" ".join(cmd), err[-3000:]))
    return exe, table, text


def write_jobs(path, jobs):
    """jobs: list of (image bytes, [(fid, objoff, idx tuple, val bytes)])"""
    with open(path, "wb") as f:
        for img, calls in jobs:
            f.write(pystruct.pack("<q", len(img)))
            f.write(img)
            f.write(pystruct.pack("<q", len(calls)))
            for fid, objoff, idx, val in calls:
                ii = list(idx) + [0] * (8 - len(idx))
                f.write(pystruct.pack(CALL_FMT, fid, objoff, *ii, (val + b"\0" * 8)[:8]))


def execute(exe, workdir, jobs, tag="job", env=None):
    """run the driver; returns (per job list of (out8, lo, hi), final images, failure) ; failure = None or
    (job index, call index, stderr tail) when the process died (sanitizer report, crash)"""
    fin = os.path.join(workdir, tag + ".in")
    fout = os.path.join(workdir, tag + ".out")
    write_jobs(fin, jobs)
    e = dict(os.environ)
    e["ASAN_OPTIONS"] = "detect_leaks=0:abort_on_error=0:exitcode=99"
    e["UBSAN_OPTIONS"] = "print_stacktrace=1:halt_on_error=1"
    if env:
        e.update(env)
    def lift():
        import resource

        hard = resource.getrlimit(resource.RLIMIT_AS)[1]
        resource.setrlimit(resource.RLIMIT_AS, (hard, hard))  # ASan reserves terabytes of address space

    p = subprocess.run([exe, fin, fout], cwd=workdir, stdout=subprocess.PIPE, stderr=subprocess.PIPE, env=e, timeout=900, preexec_fn=lift)
    data = open(fout, "rb").read() if os.path.exists(fout) else b""
    results, images = [], []
    pos = 0
    failure = None
    for ji, (img, calls) in enumerate(jobs):
        rs = []
        for ci in range(len(calls)):
            if pos + RES_SIZE > len(data):
                break
            out8 = data[pos : pos + 8]
            lo, hi = pystruct.unpack_from("<qq", data, pos + 8)
            rs.append((out8, lo, hi))
            pos += RES_SIZE
        results.append(rs)
        if len(rs) < len(calls) or pos + len(img) > len(data):
            failure = (ji, len(rs), p.stderr.decode("utf8", "replace")[-2500:], p.returncode)
            break
        images.append(data[pos : pos + len(img)])
        pos += len(img)
    if failure is None and p.returncode != 0:
        failure = (len(jobs), 0, p.stderr.decode("utf8", "replace")[-2500:], p.returncode)
    for fpath in (fin, fout):
        try:
            os.remove(fpath)
        except OSError:
            pass
    return results, images, failure
