"""Offline setup: nothing to build; verifies the toolchain the checks rely on."""
import shutil, sys
import numpy, cffi  # noqa
import xobjects  # noqa
for tool in ("gcc", "clang"):
    if shutil.which(tool) is None:
        print("missing tool:", tool); sys.exit(1)
print("xoverif setup ok; xobjects from", xobjects.__file__)
