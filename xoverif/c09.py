"""C09: copy-construction yields an equal, storage-disjoint object (DESIGN.md 2/C09)."""
import hashlib
import itertools

import numpy as np

from . import common, cons, hand, hist, place, universe, xt

PID = "C09"
DESTS = ["same", "other", "ctx", "ctx-default", "kind", "same:view", "other:view"]  # ":view" = the source is a view rebuilt from (buffer, offset)
VMODES = ["ramp", "null", "extreme", "emptyref"]


def describe(tier):
    return dict(
        rule="case + history system: every type of the history sub-universe and every reference-bearing type of the universe x values (references fresh / "
        "null / alternating union members) x destination {same buffer, other buffer of the same context, buffer of another context, _context only, other "
        "buffer kind}: T(src, ...) must read back equal, leave the source equal, occupy storage disjoint from the source; references alias the same referent "
        "in the same buffer and resolve to live duplicates inside the copy's buffer otherwise; then every single write (depth 1; thorough: every pair, depth 2) "
        "of a leaf on either side (also through references) must show only where the model says (shared referents in the same buffer, nowhere else), and a copy made afterwards from either handle must equal what that handle reads now.",
        bounds=dict(types=len(types_for(tier)), dests=DESTS, values=VMODES, write_depth=1 if tier == "quick" else 2, max_leaf_positions=8),
        assumptions=["sharing between two references inside one source object is not part of the enumerated values"],
        must_fire=["copy", "write-src", "write-copy"],
    )


def types_for(tier):
    ts = list(universe.rh(tier))
    extra = [t for t in universe.universe(tier) if xt.has_refs(t)]
    if tier == "quick":
        extra = extra[::3]
    # referents and by-value parts that are 3-D arrays of dynamically sized items in the two CYCLIC axis orders (a copy reaches
    # them as views; their offset tables are stored in memory order)
    A1, A2 = xt.Arr(xt.STR, (2, 2, 2), (1, 2, 0)), xt.Arr(xt.STR, (2, 3, 2), (2, 0, 1))
    extra = [xt.St(xt.Ref(A1), xt.Sc("i8")), xt.St(xt.Ref(universe.S_S), A2), xt.St(xt.URef(universe.S_S, A2), xt.Sc("i64")), xt.Arr(xt.Ref(A2), (2,))] + extra
    # union references whose target itself holds a union reference (copying the outer one across buffers duplicates the target,
    # which writes union references of its own meanwhile); the member indices of the two differ in some value alphabet
    N1, N2 = xt.St(xt.URef(universe.S_S, universe.S_D2), xt.Sc("i64")), xt.St(xt.Sc("i64"), xt.URef(universe.S_D2, universe.S_S))
    extra = [xt.URef(universe.S_S, N1), xt.URef(N1, universe.S_S), xt.St(xt.URef(universe.S_S, N2), xt.Sc("i8")), xt.Arr(xt.URef(N2, universe.S_S), (2,)), xt.St(xt.URef(N1, universe.S_S), xt.STR)] + extra
    seen = set(ts)
    for t in extra:
        if t not in seen:
            seen.add(t)
            ts.append(t)
    return ts


def shards(tier, seed):
    ts = types_for(tier)
    ts = ts[seed % len(ts):] + ts[: seed % len(ts)]
    out = cons.chunk(ts, 64 if tier == "quick" else 128)
    # array classes GIVEN A NAME by subclassing (class Line(xo.Ref[Elem][:]): pass): the copy rules are those of the base
    U = universe
    out.append(("named-subclass", [U.A2_REFARR, U.A2_UREF, xt.Arr(xt.Ref(U.S_S), (None,)), xt.St(U.A2_REFARR, xt.STR), U.A_DD, U.A2_STRUCT, xt.Arr(xt.Ref(U.A_DS), (2,))]))
    # structs declared from Field objects taken over from a donor struct in which the same fields lie elsewhere
    St, Sc, STR, Ref, URef = xt.St, xt.Sc, xt.STR, xt.Ref, xt.URef
    out.append(("shared-fields", [St(Ref(U.S_S), STR, U.A_DS), St(Sc("i8"), URef(U.S_S, U.S_D2), STR, Sc("f64")), St(U.A2_REFARR, STR, Sc("i16")), St(STR, Ref(U.S_D1), STR), U.S2_REF, U.S2_UREF,
                                  St(Ref(U.S_S), Sc("i64"), Sc("f64")), xt.Arr(St(Ref(U.S_S), Sc("i64")), (2,))]))
    # struct classes whose reference fields are DECLARED with a non-null default (list / (name, data) / factory)
    out.append(("declared-defaults", "default"))
    out.append(("declared-defaults", "factory"))
    # structs whose reference denotes a part of themselves, with spare room in the strings before it
    out.append(("own-part",))
    return out


D_SETS = ["set-r-none", "set-u-none", "set-r-value", "set-u-value"]
D_COPIES = ["copy-same", "copy-other", "copy-ctx", "embed", "array-item"]


def d_read(h):
    out = {}
    for f in ("r", "u"):
        got = getattr(h, f)
        out[f] = None if got is None else ((int(got.a), float(got.b)) if hasattr(got, "a") else (int(got[0]), float(got[1])))
    out["k"] = int(h.k)
    return out


def run_declared_defaults(variant, tier, res):
    """copies of objects of a class whose reference fields carry declared defaults, after histories that set or null them"""
    from . import c08

    depth = 2 if tier == "quick" else 3
    sig = set()
    for init in c08.D_INIT:
        for n in range(depth + 1):
            for hs in itertools.product(D_SETS, repeat=n):
                for cp in D_COPIES:
                    res.transitions += 1
                    res.events["copy"] += 1
                    feat = dict(holder="declared-default:" + variant, init=init, copy=cp, depth=n, last=hs[-1] if hs else "construct")
                    case = dict(part="declared-defaults", variant=variant, init=init, history=list(hs) + [cp])
                    r = None
                    try:
                        objs = c08.d_build(variant, init, list(hs) + [cp])
                        src, dst = objs[-2][0], objs[-1][0]
                        a, b = d_read(src), d_read(dst)
                        res.oracles["equal"] += 1
                        if a != b:
                            r = ("C09.equal", "copy-differs", "source reads %r, its copy (%s) reads %r" % (a, cp, b))
                        else:
                            for f in ("r", "u"):
                                g = getattr(dst, f)
                                if g is not None and g._buffer is not dst._buffer:
                                    r = ("C09.refs", "referent-outside-own-buffer", "field %s of the copy (%s)" % (f, cp))
                            # a later write to either side never shows through the other
                            dst.k = 77
                            if r is None and int(src.k) != a["k"]:
                                r = ("C09.independent", "write-shows-through", "k of the source changed with the copy's")
                    except Exception as e:
                        r = ("C09.copy", "copy-raises:" + common.exc_failure(e), repr(e))
                    if r:
                        res.outcomes["bad:" + r[1].split(":")[0]] += 1
                        if (r[0], r[1], cp) not in sig:
                            sig.add((r[0], r[1], cp))
                            res.violations.append(common.violation(r[0], r[1], feat, case, r[2]))
                        continue
                    res.outcomes["ok:declared-default"] += 1
                    res.states += 1
    res.cases += len(c08.D_INIT)
    res.max_depth = max(res.max_depth, depth + 1)


class Pair:
    pass


def dest_kwargs(dest, sb):
    dest = dest.split(":")[0]
    if dest == "same":
        return dict(_buffer=sb)
    if dest == "other":
        return dict(_buffer=place.traced("np", 0))
    if dest == "ctx":
        return dict(_buffer=place.traced("np", 0, context=place.ctx(1)))
    if dest == "ctx-default":
        return dict(_context=place.ctx(1))
    if dest == "kind":
        return dict(_buffer=place.traced("ba", 0))
    raise ValueError(dest)


def build(t, v, dest, writes):
    """source in a traced buffer, copy at `dest`, then replay `writes` = [(side, path, value)]"""
    p = Pair()
    p.t, p.dest = t, dest
    p.sb = place.traced("np", 0)
    p.src = xt.construct(t, cons.base_arg(t, v), _buffer=p.sb)
    if dest.endswith(":view") and t[0] != "U":
        p.src = xt.build(t)._from_buffer(p.src._buffer, p.src._offset)
    p.msrc = v
    p.copy_error = None
    p.src_log = list(p.sb.log)
    try:
        p.copy = xt.construct(t, p.src, **dest_kwargs(dest, p.sb))
    except Exception as e:
        p.copy = None
        p.copy_error = e
        return p
    p.mcopy = v
    p.db = p.copy._buffer
    for w in writes:
        apply_write(p, w)
    return p


def apply_write(p, w):
    side, path, val = w
    via_view = side.endswith("-view")
    side = side.split("-")[0]
    h = p.src if side == "src" else p.copy
    if via_view:
        h = xt.build(p.t)._from_buffer(h._buffer, h._offset)
    hand.assign(p.t, h, path, val)
    shared = p.dest.split(":")[0] == "same" and any(q in ("*", "#") for q in path)
    if side == "src" or shared:
        p.msrc = xt.set_path(p.msrc, path, val)
    if side == "copy" or shared:
        p.mcopy = xt.set_path(p.mcopy, path, val)


def extents(t, h):
    """[(path, off, end, buffer, through_ref)] of every compound handle reachable"""
    out = []
    for path, ct, ch in hand.handles(t, h):
        out.append((path, int(ch._offset), int(ch._offset) + hand.size_of(ch), ch._buffer, any(q in ("*", "#") for q in path)))
    if t[0] == "U":
        out.append((("slot",), int(h._offset), int(h._offset) + 16, h._buffer, False))
    return out


def check_copy(p, res):
    """oracle right after the copy"""
    t = p.t
    try:
        gs, gc = xt.read(t, p.src), xt.read(t, p.copy)
    except Exception as e:
        return ("C09.equal", "read-raises:" + common.exc_failure(e), repr(e))
    res.oracles["equal"] += 1
    if not xt.veq(gc, p.mcopy):
        return ("C09.equal", "copy-differs", "first difference at %r: %s" % xt.vdiff(gc, p.mcopy))
    if not xt.veq(gs, p.msrc):
        return ("C09.equal", "source-changed", "first difference at %r: %s" % xt.vdiff(gs, p.msrc))
    if p.dest.split(":")[0] != "same" and p.copy._buffer is p.sb:
        return ("C09.placement", "copy-in-source-buffer", "")
    if p.dest.split(":")[0] == "same" and p.copy._buffer is not p.sb:
        return ("C09.placement", "copy-not-in-requested-buffer", "")
    # nothing the copy's handle holds (cached tables, arrays) may be a window onto the source's storage
    try:
        sbuf = p.sb.buffer
        smem = np.frombuffer(sbuf, dtype="int8") if not isinstance(sbuf, np.ndarray) else sbuf
        slo, shi = int(p.src._offset), int(p.src._offset) + hand.size_of(p.src)
        for _, ct, ch in hand.handles(t, p.copy.get() if (t[0] == "U" and p.copy.get() is not None) else p.copy) if t[0] != "U" or p.copy.get() is not None else []:
            for an, av in vars(ch).items():
                if isinstance(av, np.ndarray) and av.size and np.shares_memory(av, smem):
                    a0 = av.__array_interface__["data"][0] - smem.__array_interface__["data"][0]
                    if p.copy._buffer is not p.sb or slo <= a0 < shi:
                        return ("C09.disjoint", "handle-aliases-source-storage", "attribute %s of the copy's handle is a view onto the source's bytes at +%d" % (an, a0))
    except Exception as e:
        return ("C09.disjoint", "handle-inspection-raises:" + common.exc_failure(e), repr(e))
    try:
        es, ec = extents(t, p.src), extents(t, p.copy)
    except Exception as e:
        return ("C09.disjoint", "extent-walk-raises:" + common.exc_failure(e), repr(e))
    res.oracles["disjoint"] += 1
    ds = {pa: (a, b) for pa, a, b, bf, tr in es}
    for pa, a, b, bf, tr in ec:
        if bf is not p.copy._buffer:
            return ("C09.refs-valid", "part-in-foreign-buffer", "part %r of the copy lives in another buffer" % (pa,))
        if p.dest.split(":")[0] == "same":
            if tr:
                # referents are shared in the same buffer: the first reference crossed decides
                if pa in ds and ds[pa] != (a, b):
                    return ("C09.refs-shared", "referent-duplicated-in-same-buffer", "part %r: source referent %r, copy referent %r" % (pa, ds[pa], (a, b)))
            else:
                for pb, a2, b2, bf2, tr2 in es:
                    if not tr2 and a < b2 and a2 < b and b > a and b2 > a2:
                        return ("C09.disjoint", "storage-overlaps", "copy part %r [%d,%d) overlaps source part %r [%d,%d)" % (pa, a, b, pb, a2, b2))
        else:
            live = {o: s for k, o, s in [e for e in bf.log if e[0] == "alloc"]} if hasattr(bf, "log") else None
            if live is not None:
                if not any(o <= a and b <= o + s for o, s in live.items()):
                    return ("C09.refs-valid", "part-outside-live-allocation", "part %r [%d,%d); allocations %r" % (pa, a, b, sorted(live.items())[:8]))
    return None


def leaf_positions(t, v, k=8):
    leaves = [(p, lt, lv) for p, lt, lv in xt.leaf_paths(t, v) if p]
    if len(leaves) > k:
        # keep leaves through references preferentially (they decide sharing), then spread
        thr = [l for l in leaves if any(q in ("*", "#") for q in l[0])]
        oth = [l for l in leaves if l not in thr]
        step = max(1, len(oth) // max(1, k - min(len(thr), k // 2)))
        leaves = thr[: k // 2] + oth[::step][: k - min(len(thr), k // 2)]
    return leaves


def writes_menu(p, n):
    out = []
    for side, mv in (("src", p.msrc), ("copy", p.mcopy)):
        for path, lt, lv in leaf_positions(p.t, mv):
            room = hist.string_room(lv) if lt[0] == "Str" else 0
            c = hist.leaf_candidates(lt, lv, room, n)
            if c:
                out.append((side, path, c[0]))
                if p.t[0] != "U":
                    # the same write through ANOTHER python object for the same storage (a view rebuilt from buffer and
                    # offset): the handle that was copied from, and is copied from again afterwards, has not seen it
                    out.append((side + "-view", path, c[0]))
    return out


def check_after_write(p, res):
    try:
        gs, gc = xt.read(p.t, p.src), xt.read(p.t, p.copy)
    except Exception as e:
        return ("C09.independent", "read-raises:" + common.exc_failure(e), repr(e))
    res.oracles["independent"] += 1
    if not xt.veq(gs, p.msrc):
        return ("C09.independent", "source-side-wrong-after-write", "first difference at %r: %s" % xt.vdiff(gs, p.msrc))
    if not xt.veq(gc, p.mcopy):
        return ("C09.independent", "copy-side-wrong-after-write", "first difference at %r: %s" % xt.vdiff(gc, p.mcopy))
    # copies made NOW from the same two handles (the source handle has been copied from before; nothing remembered
    # from that first copy may leak into this one)
    for side, h, m in (("src", p.src, p.msrc), ("copy", p.copy, p.mcopy)):
        try:
            c2 = xt.construct(p.t, h, **dest_kwargs(p.dest, p.sb))
            g2 = xt.read(p.t, c2)
        except Exception as e:
            return ("C09.equal", "second-copy-raises:" + common.exc_failure(e), "copy of the %s handle after the writes: %r" % (side, e))
        res.oracles["equal"] += 1
        if not xt.veq(g2, m):
            return ("C09.equal", "second-copy-differs", "copy made from the %s handle after the writes: first difference at %r: %s" % ((side,) + xt.vdiff(g2, m)))
    return None


def run_case(t, vmode, dest, tier, res, seed):
    v = xt.gen(t, vmode)
    f = cons.feats(t, vmode, "xobj", dest)
    f["dest"] = dest
    cid = dict(type=t, type_str=xt.show(t), vmode=vmode, dest=dest, writes=[], decl=xt.DECL[0])
    try:
        p = build(t, v, dest, [])
    except Exception as e:
        res.skipped["source-construct(C01's business):" + common.exc_failure(e)] += 1
        return
    try:
        gs = xt.read(t, p.src)
        if not xt.veq(gs, v):
            # the source does not read what it was given (C01's business); the copy must still read what the SOURCE reads
            if p.copy_error is None:
                try:
                    gc = xt.read(t, p.copy)
                except Exception:
                    gc = None
                if gc is not None and not xt.veq(gc, gs):
                    res.cases += 1
                    res.outcomes["copy-differs"] += 1
                    res.violations.append(common.violation("C09.equal", "copy-differs-from-source-as-read", f, cid, "first difference at %r: %s" % xt.vdiff(gc, gs)))
                    return
            res.skipped["source-readback(C01's business)"] += 1
            return
    except Exception as e:
        res.skipped["source-read(C01's business):" + common.exc_failure(e)] += 1
        return
    res.cases += 1
    res.transitions += 1
    res.events["copy"] += 1
    if p.copy_error is not None:
        res.outcomes["copy-raises"] += 1
        res.violations.append(common.violation("C09.copy", "raises:" + common.exc_failure(p.copy_error), f, cid, repr(p.copy_error)))
        return
    r = check_copy(p, res)
    if r:
        res.outcomes[r[1].split(":")[0]] += 1
        res.violations.append(common.violation(r[0], r[1], f, cid, r[2]))
        return
    res.outcomes["ok:copy:" + dest] += 1
    res.states += 1
    depth = 1 if tier == "quick" else 2
    frontier = [([], [])]
    seen = set()
    for d in range(depth):
        nf = []
        for ws, widx in frontier:
            pb = build(t, v, dest, ws)
            menu = writes_menu(pb, d * 5)
            for wi, w in enumerate(menu):
                p2 = build(t, v, dest, ws)
                res.transitions += 1
                res.events["write-" + w[0]] += 1
                try:
                    apply_write(p2, w)
                except Exception as e:
                    res.skipped["write-refused(C10's business):" + common.exc_failure(e)] += 1
                    continue
                r = check_after_write(p2, res)
                if r:
                    res.outcomes[r[1]] += 1
                    ff = dict(f, side=w[0], through_ref=any(q in ("*", "#") for q in w[1]), depth=d + 1)
                    res.violations.append(common.violation(r[0], r[1], ff, dict(cid, writes_idx=widx + [wi], writes=common.jsonable([list(x) for x in ws + [w]])), r[2]))
                    continue
                res.outcomes["ok:write-" + w[0]] += 1
                k = hashlib.sha1(place.whole(p2.sb) + (place.whole(p2.db) if p2.db is not p2.sb else b"")).digest()
                if k not in seen:
                    seen.add(k)
                    nf.append((ws + [w], widx + [wi]))
        frontier = nf
    res.states += len(seen)
    res.max_depth = max(res.max_depth, depth + 1)


_op = {}


def own_part_classes():
    import xobjects as xo

    if not _op:
        Pd = type("C09opPd", (xo.Struct,), {"a": xo.Int64, "w": xo.Float64[:]})
        Ps = type("C09opPs", (xo.Struct,), {"a": xo.Int64, "b": xo.Float64})
        for tag, P in (("d", Pd), ("s", Ps)):
            U = type("C09opU" + tag, (xo.UnionRef,), {"_reftypes": (Ps, Pd)})
            _op["R" + tag] = (P, type("C09opTr" + tag, (xo.Struct,), {"s": xo.String, "inner": P, "r": xo.Ref[P], "k": xo.Int64, "t": xo.String}))
            _op["U" + tag] = (P, type("C09opTu" + tag, (xo.Struct,), {"s": xo.String, "inner": P, "r": U, "k": xo.Int64, "t": xo.String}))
    return _op


def run_own_part(res):
    """a struct whose reference denotes a PART OF ITSELF (a by-value field), with strings before that part that have spare room
    or not (created from a capacity, shortened after creation, filled): copied to the seven destinations.  The copy reads what
    the source reads, its reference resolves inside the copy's own buffer (the same part in the same buffer), writes to either
    side do not show through the other."""
    cls = own_part_classes()
    for key, (P, T) in sorted(cls.items()):
        for spare in ("none", "capacity", "shortened"):
            for dest in ("same", "other", "ctx", "kind"):
                res.cases += 1
                res.transitions += 1
                res.events["copy-own-part"] += 1
                f = dict(root="St", has_refs=True, own_part=True, holder=key, spare=spare, dest=dest)
                cid = dict(part="own-part", holder=key, spare=spare, dest=dest)
                try:
                    sb = place.traced("np", 0)
                    sb.allocate(11)
                    pv = dict(a=5, w=[1.5, 2.5, 3.5]) if key.endswith("d") else dict(a=5, b=2.5)
                    src = T(s=21 if spare == "capacity" else "q" * (20 if spare == "shortened" else 5), inner=pv, k=8, t="tail", _buffer=sb)
                    src.s = "short"
                    src.r = src.inner

                    def rd(x):
                        part = lambda q: None if q is None else (type(q).__name__, int(q.a), [float(v) for v in q.w] if hasattr(q, "w") else float(q.b))
                        return (x.s, part(x.inner), part(x.r), int(x.k), x.t)

                    before = rd(src)
                    if src.r is None or int(src.r._offset) != int(src.inner._offset):
                        res.skipped["own-part-not-bound(C08's business)"] += 1
                        continue
                    cp = T(src, **dest_kwargs(dest, sb))
                    got = rd(cp)
                except Exception as e:
                    res.violations.append(common.violation("C09.copy", "raises:" + common.exc_failure(e), f, cid, repr(e)))
                    continue
                res.oracles["equal"] += 1
                r = None
                if got != before:
                    r = ("C09.equal", "copy-differs", "source reads %r, copy reads %r" % (before, got))
                elif cp.r._buffer is not cp._buffer:
                    r = ("C09.refs-valid", "referent-outside-own-buffer", "")
                elif dest == "same" and int(cp.r._offset) != int(src.inner._offset):
                    r = ("C09.refs-shared", "referent-duplicated-in-same-buffer", "copy's reference at %d, source part at %d" % (int(cp.r._offset), int(src.inner._offset)))
                else:
                    try:
                        live = [(e_[1], e_[1] + e_[2]) for e_ in cp._buffer.log if e_[0] == "alloc"] if hasattr(cp._buffer, "log") else None
                        ro = int(cp.r._offset)
                        if live is not None and not any(lo <= ro < hi for lo, hi in live):
                            r = ("C09.refs-valid", "part-outside-live-allocation", "reference target at %d, allocations %r" % (ro, live[:6]))
                        if r is None:
                            cp.r.a = 77
                            cp.k = 66
                            if dest != "same" and rd(src) != before:
                                r = ("C09.independent", "write-shows-through", "source changed with the copy: %r" % (rd(src),))
                            elif dest == "same" and (rd(src)[3] != before[3] or rd(src)[1][1] != 77):
                                r = ("C09.refs-shared", "shared-referent-write-not-seen", "%r" % (rd(src),))
                    except Exception as e:
                        r = ("C09.independent", "read-raises:" + common.exc_failure(e), repr(e))
                if r:
                    res.outcomes["bad:" + r[1]] += 1
                    res.violations.append(common.violation(r[0], r[1], f, cid, r[2]))
                else:
                    res.outcomes["ok:own-part"] += 1
                    res.states += 1
    res.nontrivial = res.states
    res.max_depth = max(res.max_depth, 1)
    return res


def run_shard(types, tier, seed):
    res = common.ShardResult()
    if isinstance(types, tuple) and types[0] == "own-part":
        return run_own_part(res)
    if isinstance(types, tuple) and types[0] == "declared-defaults":
        run_declared_defaults(types[1], tier, res)
        res.nontrivial = res.states
        return res
    if isinstance(types, tuple) and types[0] in ("named-subclass", "shared-fields"):
        xt.DECL[0] = types[0]  # this process only
        types = types[1]
    for t in types:
        modes = VMODES if xt.has_refs(t) else ["ramp"] + (["extreme"] if tier == "thorough" else [])
        for vmode in modes:
            for dest in DESTS:
                run_case(t, vmode, dest, tier, res, seed)
    res.nontrivial = res.states
    if types:
        res.sample(dict(type=xt.show(types[0]), dests=DESTS, values=VMODES))
    return res


def replay(case):
    if case.get("part") == "own-part":
        return [v for v in run_own_part(common.ShardResult()).violations if all(v["case"].get(k) == case.get(k) for k in ("holder", "spare", "dest"))]
    if case.get("part") == "declared-defaults":
        from . import c08

        objs = c08.d_build(case["variant"], case["init"], case["history"])
        a, b = d_read(objs[-2][0]), d_read(objs[-1][0])
        return [] if a == b else ["source reads %r, copy reads %r" % (a, b)]
    t = xt.retuple(case["type"])
    xt.DECL[0] = case.get("decl", "index")
    v = xt.gen(t, case["vmode"])
    res = common.ShardResult()
    ws = []
    idx = case.get("writes_idx", [])
    for d, wi in enumerate(idx[:-1]):
        pb = build(t, v, case["dest"], ws)
        ws.append(writes_menu(pb, d * 5)[wi])
    p = build(t, v, case["dest"], ws)
    if p.copy_error is not None:
        return [repr(p.copy_error)]
    if not idx:
        r = check_copy(p, res)
        return [r] if r else []
    w = writes_menu(p, (len(idx) - 1) * 5)[idx[-1]]
    apply_write(p, w)
    r = check_after_write(p, res)
    return [r] if r else []
