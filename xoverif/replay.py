"""Re-run one recorded violation without the explorer:  python -m xoverif.replay <path>"""
import json, sys
from . import common

def main():
    path = sys.argv[1]
    body = json.load(open(path))
    common.quiet()
    mod = __import__("xoverif." + body["module"], fromlist=["x"])
    got = mod.replay(body["violation"]["case"])
    if got:
        for g in got:
            print("REPRODUCED", g)
        sys.exit(1)
    print("not reproduced (property holds on this case now)")
    sys.exit(0)

main()
