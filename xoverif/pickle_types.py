"""Importable (module-level, stably named) struct / array-subclass / hybrid classes for C20.
Built at import time from the harness AST, so that pickle finds them by module and name."""
import sys

from . import universe, xt
from .xt import STR, Arr, Ref, Sc, St, URef

_mod = sys.modules[__name__]

STRUCT_ASTS = [
    universe.S_S,
    universe.S_D1,
    universe.S_D2,
    St(STR, STR, Sc("i8")),
    universe.S2_NEST,
    universe.S2_ARRS,
    St(Sc("i64"), Arr(universe.S_D1, (2,))),
    universe.S2_REF,
    universe.S2_UREF,
    St(Ref(universe.A_DS), Sc("f32")),
    St(STR, universe.S2_REF),
    St(universe.A_SS, Arr(STR, (None,)), Arr(Sc("u8"), (None, 3, None), (2, 0, 1))),
]
ARRAY_ASTS = [
    universe.A_SS,
    universe.A_DS,
    universe.A_DS2,
    universe.A_SD,
    universe.A_DD,
    Arr(STR, (2, None), (1, 0)),
    universe.A2_STRUCT,
    universe.A2_NESTARR,
    universe.A2_REFARR,
    universe.A2_UREF,
    Arr(Sc("i32"), (2, 3, 4), (1, 2, 0)),
]

TYPES = {}  # name -> (ast, class)


def _register(name, cls):
    cls.__module__ = __name__
    cls.__qualname__ = name
    cls.__name__ = name if not hasattr(cls, "_fields") else cls.__name__
    setattr(_mod, name, cls)


for _t in STRUCT_ASTS:
    _c = xt.build(_t)
    _c.__module__ = __name__
    _c.__qualname__ = _c.__name__
    setattr(_mod, _c.__name__, _c)
    TYPES[_c.__name__] = (_t, _c)

for _i, _t in enumerate(ARRAY_ASTS):
    _base = xt.build(_t)
    _name = "PArr%d_%s" % (_i, _base.__name__)
    _c = type(_name, (_base,), {"__module__": __name__, "__qualname__": _name})
    setattr(_mod, _name, _c)
    TYPES[_name] = (_t, _c)


def _hybrids():
    import xobjects as xo

    class PH1(xo.HybridClass):
        _xofields = {"x": xo.Int64, "v": xo.Float64[:]}

    class PH2(xo.HybridClass):
        _xofields = {"inner": PH1, "s": xo.String, "w": xo.Int32[:]}
        _rename = {"s": "label"}

    class PH3(xo.HybridClass):
        _xofields = {"r": xo.Ref(PH1), "k": xo.Int64}

    class PH4(xo.HybridClass):
        # nested parts of dynamic size declared AFTER other fields of dynamic size (reached through offset slots), two levels
        _xofields = {"w": xo.Int32[:], "s": xo.String, "inner": PH1, "deep": PH2, "k": xo.Int64}

    for c in (PH1, PH2, PH3, PH4):
        c.__module__ = __name__
        c.__qualname__ = c.__name__
        setattr(_mod, c.__name__, c)
    return dict(PH1=PH1, PH2=PH2, PH3=PH3, PH4=PH4)


HYBRIDS = _hybrids()
