"""Specification of the allocator as a byte map (written from the property statements only).

Each byte of [0, capacity) is FREE, LOST (alignment padding skipped by a request; never reusable)
or LIVE(id).  First fit: the lowest-addressed maximal run of FREE bytes whose aligned start leaves
room for the request.  Nothing here imports xobjects."""

FREE, LOST = 0, -1


class ByteMap:
    def __init__(self, cap):
        self.m = [FREE] * cap

    @property
    def cap(self):
        return len(self.m)

    def extend(self, newcap):
        if newcap > len(self.m):
            self.m.extend([FREE] * (newcap - len(self.m)))

    def runs(self):
        out, i, m, n = [], 0, self.m, len(self.m)
        while i < n:
            if m[i] == FREE:
                j = i
                while j < n and m[j] == FREE:
                    j += 1
                out.append((i, j))
                i = j
            else:
                i += 1
        return out

    def first_fit(self, size, alignment):
        """(run_start, offset) of the first free run that can hold `size` bytes at `alignment`."""
        for st, en in self.runs():
            off = -(-st // alignment) * alignment
            if off + size <= en:
                return st, off
        return None

    def take(self, run_start, off, size, ident):
        for i in range(run_start, off):
            self.m[i] = LOST
        for i in range(off, off + size):
            assert self.m[i] == FREE
            self.m[i] = ident

    def release(self, off, size):
        for i in range(off, off + size):
            self.m[i] = FREE

    def free_total(self):
        return sum(1 for x in self.m if x == FREE)

    def lost_total(self):
        return sum(1 for x in self.m if x == LOST)
