"""Plain unit tests that replay, without the explorer, the minimal witness of every defect the checks found in the
pinned tree and that was repaired by a `fix:` commit in /repo (see /verif/known_findings.json, DESIGN.md 6).

run:  cd /verif && /venv/bin/python -m pytest -q tests/test_fixed_findings.py
"""
import pickle

import numpy as np
import pytest

import xobjects as xo
from xobjects.context_cpu import BufferByteArray, BufferNumpy

ctx = xo.ContextCpu()


def test_c12_free_into_empty_free_list():
    b = BufferNumpy(capacity=8, context=ctx)
    off = b.allocate(8)
    b.free(off, 8)
    assert b.get_free() == 8


def test_c12_many_growth_steps_do_not_recurse():
    b = BufferNumpy(capacity=1200, context=ctx, grow_step=1)
    b.allocate(1200)
    assert b.allocate(1199) == 1200


def test_c01_numpy_init_non_c_order():
    a = np.arange(6.0).reshape(2, 3)
    x = xo.Float64[2:1, 3:0](a)
    assert [[x[i, j] for j in range(3)] for i in range(2)] == a.tolist()
    y = xo.Float64[2, 3](np.asfortranarray(a))
    assert y[1, 0] == 3.0


def test_c01_to_nplike_three_cycle_and_empty():
    a = np.arange(24).reshape(2, 3, 4)
    x = xo.Int64[2:1, 3:2, 4:0](a)
    assert np.array_equal(x.to_nplike(), a)
    assert xo.Float64[:](0).to_nplike().shape == (0,)


def test_c01_nested_list_nd_dynamic_items_and_union_arrays():
    s = xo.String[2, 3]([["a", "bb", "ccc"], ["d", "ee", "fff"]])
    assert s[1, 2] == "fff"

    class P(xo.Struct):
        a = xo.Int64

    class U(xo.UnionRef):
        _reftypes = (P,)

    u = U[:]([("P", {"a": 1}), ("P", {"a": 2})])
    assert u[1].a == 2


def test_c05_c06_offset_table_in_memory_order():
    v = [["a", "bb", "ccc"], ["dddd", "e", "ff"]]
    x = xo.String[2:1, 3:0](v)
    y = type(x)._from_buffer(x._buffer, x._offset)
    assert [[y[i, j] for j in range(3)] for i in range(2)] == v


def test_c09_array_of_refs_is_not_byte_copied():
    class P(xo.Struct):
        a = xo.Int64

    A = xo.Ref[P][:]
    src = A([{"a": 1}, {"a": 2}])
    dst = A(src, _buffer=ctx.new_buffer(0))
    assert [dst[0].a, dst[1].a] == [1, 2] and dst[0]._buffer is dst._buffer


def test_c01_capacity_string_in_dirty_memory():
    b = ctx.new_buffer(64)
    off = b.allocate(40)
    b.update_from_buffer(off, b"\xa5" * 40)
    b.free(off, 40)
    assert xo.String(20, _buffer=b).to_str() == ""


def test_c01_unionref_from_unionref():
    class P(xo.Struct):
        a = xo.Int64

    class U(xo.UnionRef):
        _reftypes = (P,)

    u = U("P", {"a": 5})
    v = U(u, _buffer=ctx.new_buffer(0))
    assert v.get().a == 5


def test_c10_struct_update_with_refs_is_field_wise():
    class T(xo.Struct):
        a = xo.Int64

    class In(xo.Struct):
        k = xo.Int32
        r = xo.Ref[T]

    class Out(xo.Struct):
        s = xo.String
        i = In

    o = Out(s="x", i={"k": 1, "r": {"a": 2}})
    src = In(k=6, r={"a": 13}, _buffer=ctx.new_buffer(0))
    o.i = src
    assert (o.i.k, o.i.r.a) == (6, 13)


def test_c10_c11_array_update_compares_shapes():
    class S(xo.Struct):
        m = xo.UInt32[2, :]

    s = S(m=[[1, 2, 3], [4, 5, 6]])
    s.m = [[7, 8, 9], [10, 11, 12]]
    assert s.m[1, 2] == 12
    with pytest.raises(Exception):
        s.m = [[1], [2], [3], [4], [5], [6]]


def test_c11_negative_index_dynamic_items():
    a = xo.String[2](["a", "b"])
    with pytest.raises(IndexError):
        a[-1]


def test_c11_string_too_long_is_refused_and_room_is_kept():
    class S(xo.Struct):
        name = xo.String
        k = xo.Int64

    s = S(name="abcdefghij", k=7)
    with pytest.raises(ValueError):
        s.name = "x" * 16
    assert (s.name, s.k) == ("abcdefghij", 7)
    s.name = "a"
    s.name = "fifteen chars.."
    assert (s.name, s.k) == ("fifteen chars..", 7)


def test_c11_whole_array_update_is_in_place_and_all_or_nothing():
    class S(xo.Struct):
        arr = xo.String[:]
        k = xo.Int64

    s = S(arr=["aaaaaaaaaaaaaaaaaaaa", "b"], k=3)
    with pytest.raises(ValueError):
        s.arr = ["x", "much too long for the second slot"]
    assert [s.arr[0], s.arr[1], s.k] == ["aaaaaaaaaaaaaaaaaaaa", "b", 3]
    s.arr = ["x", "y"]
    assert [s.arr[0], s.arr[1], s.k] == ["x", "y", 3]


def test_c01_copy_of_array_with_unused_room():
    a = xo.String[:](["long string of many bytes", "b"])
    a[0] = "x"
    c = xo.String[:](a)
    assert [c[0], c[1]] == ["x", "b"]


def test_c13_update_from_buffer_counts_bytes():
    for kind in (BufferNumpy, BufferByteArray):
        b = kind(capacity=8, context=ctx)
        b.update_from_buffer(2, np.array([0x0102, 0x0304], dtype="<i2").data)
        assert b.capacity == 8 and bytes(b.to_bytearray(0, 8)) == b"\0\0\x02\x01\x04\x03\0\0"


def test_c13_bytearray_from_numpy_same_context():
    s = BufferNumpy(capacity=4, context=ctx)
    s.update_from_buffer(0, b"\xff\x01\x80\x7f")
    d = BufferByteArray(capacity=4, context=ctx)
    d.update_from_xbuffer(0, s, 0, 4)
    assert bytes(d.to_bytearray(0, 4)) == b"\xff\x01\x80\x7f"


def test_c02_accessor_below_array_of_dynamic_items_keeps_base():
    class S(xo.Struct):
        k = xo.Int64
        c = xo.String[:][2]

    s = S(k=1, c=[["a", "bb"], ["ccc", "d"]])
    c2 = xo.ContextCpu()
    c2.add_kernels(kernels=S._gen_kernels(), extra_classes=[S])
    import cffi

    base = np.frombuffer(s._buffer.buffer, dtype="int8").ctypes.data
    p = c2.kernels.S_getp2_c(obj=s, i0=1, i1=0)
    assert int(cffi.FFI().cast("intptr_t", p)) - base == s.c[1]._get_offset(0)


def test_c14_fieldless_dependency_emitted_once():
    from xobjects.context import sort_classes

    class E(xo.Struct):
        pass

    class F(xo.Struct):
        x = xo.Int64
        _depends_on = [E]

    assert [c.__name__ for c in sort_classes([F])] == ["E", "F"]


def test_c17_xobject_array_as_pointer_argument():
    c2 = xo.ContextCpu()
    c2.add_kernels(sources=["double first(const double* p){ return p[0]; }"], kernels={"first": xo.Kernel(args=[xo.Arg(xo.Float64, pointer=True, const=True, name="p")], ret=xo.Arg(xo.Float64))})
    assert c2.kernels.first(p=xo.Float64[:]([4.5, 2.0])) == 4.5


def _hybrids():
    class Inner(xo.HybridClass):
        _xofields = {"a": xo.Int64, "b": xo.Float64[:]}

    class Outer(xo.HybridClass):
        _xofields = {"r": xo.Ref(Inner), "k": xo.Int64}

    return Inner, Outer


def test_c18_refused_reference_assignment_changes_nothing():
    Inner, Outer = _hybrids()
    b1, b2 = ctx.new_buffer(0), ctx.new_buffer(0)
    o = Outer(k=1, _buffer=b1)
    far = Inner(a=5, b=[1.0], _buffer=b2)
    with pytest.raises(MemoryError):
        o.r = far
    assert o._xobject.r is None and o.r is None


def test_c18_reference_attribute_follows_rebinding():
    Inner, Outer = _hybrids()
    b1 = ctx.new_buffer(0)
    near = Inner(a=5, b=[1.0], _buffer=b1)
    o = Outer(k=1, _buffer=b1)
    o.r = near
    o.r = None
    assert o.r is None


def test_c19_to_dict_empty_dynamic_array_and_renamed_defaults():
    class H(xo.HybridClass):
        _xofields = {"dv": xo.Int32[:], "f": xo.Field(xo.Float64, default=1.5)}
        _rename = {"f": "pf"}

    h = H(dv=[], pf=1.5)
    d = h.to_dict()
    assert "pf" not in d and len(d["dv"]) == 0
    h2 = H.from_dict(d)
    assert len(h2.dv) == 0 and h2.pf == 1.5


class PickleD(xo.Struct):
    a = xo.Float64[:]
    b = xo.String
    k = xo.Int64


def test_c20_unpickled_struct_has_its_cached_structure():
    d = PickleD(a=[1.0, 2.0], b="xyz", k=3)
    e = pickle.loads(pickle.dumps(d))
    assert (e.b, e.k, e.a[1]) == ("xyz", 3, 2.0) and e._size == d._size


def test_c18_by_value_assignment_does_not_alias_nested_parts():
    class Inn(xo.HybridClass):
        _xofields = {"a": xo.Int64}

    class Mid(xo.HybridClass):
        _xofields = {"z": xo.Int16, "inn": Inn}

    class Out(xo.HybridClass):
        _xofields = {"mid": Mid, "t": xo.Float64}

    b = ctx.new_buffer(0)
    m = Mid(z=1, inn={"a": 5}, _buffer=b)
    o = Out(mid={"z": 0, "inn": {"a": 0}}, t=1.0, _buffer=b)
    o.mid = m
    o.mid.inn.a = 77
    assert m.inn.a == 5 and o._xobject.mid.inn.a == 77


def test_c01_copy_of_array_with_small_capacity_strings():
    A = xo.String[:]
    src = A([5, 8])
    src[1] = "cd"
    dst = A(src)
    assert [dst[0], dst[1]] == ["", "cd"]


def test_c03_copy_of_struct_with_refs_and_small_capacity_strings_stays_in_its_extent():
    class P(xo.Struct):
        a = xo.Int64

    class S(xo.Struct):
        r = xo.Ref[P]
        s = xo.String[2]

    src = S(r={"a": 1}, s=[3, 5])
    b = ctx.new_buffer(0)
    c = S(src, _buffer=b)
    tail = b.allocate(8)
    b.update_from_buffer(tail, b"\x11" * 8)
    assert [c.s[0], c.s[1], c.r.a] == ["", "", 1]
    assert c._offset + c._size <= tail


def test_c11_integer_update_denotes_the_dynamic_dimension():
    class S(xo.Struct):
        m = xo.Float64[:, 3]
        k = xo.Int64

    s = S(m=[[1, 2, 3], [4, 5, 6]], k=7)
    with pytest.raises(ValueError):
        s.m = 6
    assert tuple(S._from_buffer(s._buffer, s._offset).m._shape) == (2, 3) and s.k == 7
    s.m = 2  # the length it has: accepted


def test_c11_refused_update_of_static_item_array_changes_nothing():
    class P(xo.Struct):
        a = xo.Int64

    class Q(xo.Struct):
        z = xo.Int64

    class U(xo.UnionRef):
        _reftypes = (P,)

    class It(xo.Struct):
        x = xo.Float64
        u = U

    class H(xo.Struct):
        items = It[3]
        k = xo.Int64

    h = H(items=[{"x": 1, "u": None}, {"x": 2, "u": None}, {"x": 3, "u": None}], k=5)
    with pytest.raises(Exception):
        h.items = [{"x": 10, "u": None}, {"x": 20, "u": Q(z=1)}, {"x": 30, "u": None}]
    assert [h.items[i].x for i in range(3)] == [1, 2, 3] and h.k == 5


def test_c10_small_numpy_integer_index():
    a = xo.Float64[:](40)
    a[np.int8(20)] = 7.0
    assert a[20] == 7.0 and a[np.uint8(20)] == 7.0 and sum(a[i] for i in range(40)) == 7.0


def test_c05_extents_as_small_numpy_integers():
    a = xo.Float64[:, :](np.int8(20), np.int8(20))
    assert tuple(int(s) for s in a._strides) == (160, 8) and a._size == 8 + 16 + 16 + 3200
    a[19, 19] = 5.0
    assert type(a)._from_buffer(a._buffer, a._offset)[19, 19] == 5.0


def test_c11_struct_update_keeps_the_room_of_every_part():
    class S(xo.Struct):
        a = xo.Int64[:]
        b = xo.Int64[:]

    s1 = S(a=[1, 2, 3], b=[4])
    with pytest.raises(ValueError):
        s1._update(S(a=[5], b=[6, 7, 8]))  # same total size, other split
    assert list(s1.a.to_nparray()) == [1, 2, 3] and list(s1.b.to_nparray()) == [4]
    s1._update(S(a=[7, 8, 9], b=[10]))
    assert list(s1.a.to_nparray()) == [7, 8, 9] and list(s1.b.to_nparray()) == [10]


def test_c04_allocator_with_narrow_numpy_sizes():
    b = BufferNumpy(capacity=250, context=ctx)
    assert b.allocate(200) == 0
    off = b.allocate(np.uint8(100))
    assert off + 100 <= b.capacity and off >= 200
    b.free(off, np.uint8(100))
    assert b.get_free() == b.capacity - 200


def test_c10_string_object_assignment_keeps_the_room():
    class T(xo.Struct):
        n = xo.String
        v = xo.Int64

    t = T(n="abcdefghijklmnop", v=7)
    t.n = xo.String("ab")
    assert t.n == "ab"
    t.n = "abcdefghijklmnop"
    assert (t.n, t.v) == ("abcdefghijklmnop", 7)


def test_c11_index_with_too_many_entries():
    m = xo.Float64[3, 4](np.zeros((3, 4)))
    with pytest.raises(IndexError):
        m[(1, 2, 99)] = -1.0
    with pytest.raises(IndexError):
        m[(1, 2, 0)]
    assert m[1, 2] == 0.0


def test_c11_sequence_for_a_scalar_slot_is_refused():
    buf = ctx.new_buffer(256)
    a = xo.Float64[3]([1, 2, 3], _buffer=buf)
    b = xo.Float64[3]([7, 8, 9], _buffer=buf)
    with pytest.raises(ValueError):
        a[2] = [5.0, 6.0]
    assert (a[2], b[0]) == (3.0, 7.0)


def test_c18_reference_attribute_of_a_by_value_copy_denotes_the_copy_s_referent():
    class In(xo.HybridClass):
        _xofields = {"a": xo.Int64}

    class MidR(xo.HybridClass):
        _xofields = {"k": xo.Int64, "r": xo.Ref(In)}

    class OutR(xo.HybridClass):
        _xofields = {"mid": MidR, "t": xo.Float64}

    b1, b2 = ctx.new_buffer(1024), ctx.new_buffer(1024)
    inner = In(a=1, _buffer=b1)
    mid = MidR(k=2, _buffer=b1)
    mid.r = inner
    outer = OutR(mid={"k": 0}, t=1.0, _buffer=b2)
    outer.mid = mid
    outer.mid.r.a = 77
    assert outer.mid._xobject.r.a == 77 and inner.a == 1 and outer.mid.r._buffer is outer._buffer


def test_c01_static_array_from_a_view_of_a_dynamic_array():
    class D(xo.Struct):
        v = xo.Float64[:]

    d = D(v=[1, 2, 3])
    assert list(xo.Float64[3](d.v).to_nparray()) == [1.0, 2.0, 3.0]


def test_c19_field_object_taken_over_by_a_second_class():
    class A(xo.HybridClass):
        _xofields = {"x": xo.Field(xo.Float64, default=1.5), "y": xo.Int64}

    d = A(x=2.5, y=7).to_dict()

    class B(xo.HybridClass):
        _xofields = {"n": xo.Int64, **A._xofields}

    a = A.from_dict(d)
    b = B(n=1, x=3.5, y=8)
    assert (a.x, a.y) == (2.5, 7) and (b.n, b.x, b.y) == (1, 3.5, 8)


def test_c16_form_feed_is_text_not_a_line_end():
    src = 'char* s = "a\x0cb"; /* page\x0bbreak */\n'
    assert xo.specialize_source(src, "cpu_serial") == src


def test_c17_pointer_arguments_bytearray_buffer_and_byte_order():
    c2 = xo.ContextCpu()
    c2.add_kernels(
        sources=["void setfirst(double* x, double v){ x[0]=v; }"],
        kernels={"setfirst": xo.Kernel(args=[xo.Arg(xo.Float64, pointer=True, name="x"), xo.Arg(xo.Float64, name="v")])},
    )
    xa = xo.Float64[:]([1, 2, 3], _buffer=BufferByteArray(capacity=256, context=c2))
    c2.kernels.setfirst(x=xa, v=42.0)
    assert xa[0] == 42.0
    with pytest.raises(TypeError):
        c2.kernels.setfirst(x=np.array([1.0, 2.0], dtype=">f8"), v=1.0)


def test_c19_nested_hybrid_with_renamed_field_round_trips():
    class InR(xo.HybridClass):
        _xofields = {"a": xo.Int64}
        _rename = {"a": "alpha"}

    class OutR2(xo.HybridClass):
        _xofields = {"inner": InR}

    o = OutR2(inner=InR(alpha=3))
    assert OutR2.from_dict(o.to_dict()).inner.alpha == 3


def test_narrow_numpy_integers_everywhere():
    b = ctx.new_buffer(capacity=np.uint8(200))
    assert b.allocate(150) == 0 and b.allocate(100) >= 150
    s = xo.String(np.int64(5))
    assert s.to_str() == ""

    class PP(xo.Struct):
        arr = xo.Float64[4]
        e = xo.Float64

    buf = ctx.new_buffer(512)
    p = PP(arr=None, e=5, _buffer=buf, _offset=np.int8(96))
    assert p.e == 5.0 and PP._from_buffer(buf, 96).e == 5.0
    n = np.int64(3)

    class SS(xo.Struct):
        a = xo.Float64[(n,)]
        b = xo.Float64

    assert type(SS.b.offset) is int


def test_c11_refused_list_update_of_scalar_array():
    a = xo.Int64[3]([1, 2, 3])
    with pytest.raises(ValueError):
        a._update([7, [1, 2], 9])
    assert list(a.to_nparray()) == [1, 2, 3]


def test_wave7_side_findings():
    # C19: a field of static shape with dynamic items has a dictionary form
    class HA7(xo.HybridClass):
        _xofields = {"names": xo.String[3]}

    h = HA7(names=["a", "bc", "d"])
    h2 = HA7.from_dict(h.to_dict())
    assert [h2.names[i] for i in range(3)] == ["a", "bc", "d"]

    # C02: declared array with numpy extents: the offsets of later fields are python integers
    class Vec7(xo.Array):
        _itemtype = xo.Float64
        _shape = (np.int64(3),)

    class Body7(xo.Struct):
        pos = Vec7
        mass = xo.Float64

    assert type(Body7.mass.offset) is int and Vec7._shape == (3,)

    # C02: static extent 0 next to a dynamic one
    A0 = xo.Float64[0, :]
    assert "return 0*arr[1];" in getattr(A0._gen_c_api(), "source", A0._gen_c_api())

    # C17: 0-d array by address
    c2 = xo.ContextCpu()
    c2.add_kernels(
        sources=["void setfirst7(double* x, double v){ x[0]=v; }"],
        kernels={"setfirst7": xo.Kernel(args=[xo.Arg(xo.Float64, pointer=True, name="x"), xo.Arg(xo.Float64, name="v")])},
    )
    z = np.array(1.5)
    c2.kernels.setfirst7(x=z, v=3.0)
    assert z == 3.0

    # C01: rows given as views
    a = xo.Float64[:]([1, 2, 3])
    row = xo.Float64[:]._from_buffer(a._buffer, a._offset)
    assert xo.Float64[:, :]([row, row])._shape == (2, 3)


def test_wave7_hybrid_side_findings():
    class A7(xo.HybridClass):
        _xofields = {"a": xo.Float64}

    class B7(xo.HybridClass):
        _xofields = {"b": xo.Float64}

    class UU7(xo.UnionRef):
        _reftypes = (A7._XoStruct, B7._XoStruct)

    class O7(xo.HybridClass):
        _xofields = {"u": UU7}

    buf = ctx.new_buffer(256)
    a = A7(a=1, _buffer=buf)
    o = O7(_buffer=buf)
    o.u = a
    o.u = None
    assert o.u is None
    with pytest.raises(MemoryError):
        o.u = A7(a=2, _buffer=ctx.new_buffer(64))

    # python names below a reference field / in a dictionary assigned by attribute
    class In7(xo.HybridClass):
        _xofields = {"_a": xo.Float64, "b": xo.Int64}
        _rename = {"_a": "a"}

    class Out7(xo.HybridClass):
        _xofields = {"r": xo.Ref(In7), "k": xo.Int64}

    b2 = ctx.new_buffer(256)
    o = Out7(k=1, _buffer=b2)
    o.r = In7(a=3.5, b=2, _buffer=b2)
    assert Out7.from_dict(o.to_dict(copy_to_cpu=False)).r._a == 3.5

    class Nest7(xo.HybridClass):
        _xofields = {"inner": In7, "s": xo.Float64}

    n = Nest7(inner={"a": 3, "b": 1})
    n.inner = {"a": 9, "b": 5}
    assert n.inner.a == 9

    # a dressed object given to the constructor under the xo name of a renamed reference field
    class OutX7(xo.HybridClass):
        _xofields = {"ref_xo": xo.Ref(In7), "s": xo.Float64}
        _rename = {"ref_xo": "ref_py"}

    b3 = ctx.new_buffer(256)
    inner = In7(a=1, b=2, _buffer=b3)
    with pytest.raises(MemoryError):
        OutX7(ref_xo=inner, _buffer=ctx.new_buffer(64))
    ox = OutX7(ref_xo=inner, _buffer=b3)
    with pytest.raises(MemoryError):
        inner.move(_buffer=ctx.new_buffer(64))

    # a hybrid class named as a dependency
    from xobjects.context import sort_classes

    class Dep7(xo.HybridClass):
        _xofields = {"v": xo.Float64}

    class S7(xo.Struct):
        x = xo.Float64
        _depends_on = [Dep7]

    assert [c.__name__ for c in sort_classes([S7])] == ["Dep7Data", "S7"]


def test_c11_negative_explicit_offset_refused():
    buf = ctx.new_buffer(64)
    a = xo.Int64[8]([1, 2, 3, 4, 5, 6, 7, 8], _buffer=buf)
    with pytest.raises(ValueError):
        xo.Int64[1]([99], _buffer=buf, _offset=-16)
    assert list(a.to_nparray()) == [1, 2, 3, 4, 5, 6, 7, 8]


def test_c18_rebinding_to_the_part_nested_first():
    class Leaf8(xo.HybridClass):
        _xofields = {"x": xo.Int64}

    class Box8(xo.HybridClass):
        _xofields = {"leaf": Leaf8, "y": xo.Int64}

    class U8(xo.UnionRef):
        _reftypes = (Leaf8._XoStruct, Box8._XoStruct)

    class Holder8(xo.HybridClass):
        _xofields = {"u": U8}

    buf = ctx.new_buffer(256)
    box = Box8(leaf={"x": 5}, y=6, _buffer=buf)
    h = Holder8(_buffer=buf)
    h.u = box
    h.u = box.leaf
    assert type(h._xobject.u).__name__ == "Leaf8Data" and type(h.u).__name__ == "Leaf8"


def test_c10_fitting_text_in_capacity_string():
    class S9(xo.Struct):
        name = xo.String
        k = xo.Int64

    s = S9(name=10, k=3)
    s.name = "a" * 9  # 9 bytes + terminator: the 10 bytes of room
    assert s.name == "a" * 9 and s.k == 3
    with pytest.raises(ValueError):
        s.name = "a" * 10
    assert s.name == "a" * 9 and s.k == 3
