---------------------------- MODULE XAlloc ----------------------------
(* First-fit free-list allocator of xobjects.XBuffer, as a byte map.        *)
(* free  : set of byte addresses that are free                              *)
(* live  : set of records [off, size, al] handed out and not yet freed      *)
(* lost  : bytes skipped as alignment padding (never reusable)              *)
EXTENDS Integers, FiniteSets, Sequences
CONSTANTS MaxCap, InitCap, Sizes, Align, GrowStep, MaxLive, GrowAmounts
VARIABLES cap, free, live, lost

vars == <<cap, free, live, lost>>

AlignUp(x, a) == ((x + a - 1) \div a) * a
Min(S) == CHOOSE x \in S : \A y \in S : x <= y

RunStarts(f) == {i \in f : (i - 1) \notin f}
RunEnd(f, s) == CHOOSE e \in f : e >= s /\ (\A j \in s..e : j \in f) /\ (e + 1) \notin f
Fits(f, s, size, a) == AlignUp(s, a) + size <= RunEnd(f, s) + 1
Cands(f, size, a) == {s \in RunStarts(f) : Fits(f, s, size, a)}

GrowBy(c, size, a) ==
    LET sizepa == size + a - 1 IN
    IF sizepa > c THEN sizepa ELSE IF GrowStep # 0 THEN GrowStep ELSE c

RECURSIVE Place(_, _, _, _)
(* returns <<newcap, newfree, runstart>> after as many growths as needed; newcap = -1 if MaxCap exceeded *)
Place(c, f, size, a) ==
    IF Cands(f, size, a) # {} THEN <<c, f, Min(Cands(f, size, a))>>
    ELSE LET nc == c + GrowBy(c, size, a) IN
         IF nc > MaxCap THEN <<-1, f, 0>>
         ELSE Place(nc, f \cup (c..(nc - 1)), size, a)

Init == /\ cap = InitCap
        /\ free = 0..(InitCap - 1)
        /\ live = {}
        /\ lost = {}

Alloc(size, aligned) ==
    LET a == IF aligned THEN Align ELSE 1
        p == Place(cap, free, size, a)
        s == p[3]
        off == AlignUp(s, a)
    IN /\ Cardinality(live) < MaxLive
       /\ p[1] # -1
       /\ cap' = p[1]
       /\ free' = p[2] \ (s..(off + size - 1))
       /\ lost' = lost \cup (s..(off - 1))
       /\ live' = live \cup {[off |-> off, size |-> size, al |-> a]}

Free(r) ==
    /\ live' = live \ {r}
    /\ free' = free \cup (r.off..(r.off + r.size - 1))
    /\ UNCHANGED <<cap, lost>>

Grow(n) ==
    /\ cap + n <= MaxCap
    /\ cap' = cap + n
    /\ free' = free \cup (cap..(cap + n - 1))
    /\ UNCHANGED <<live, lost>>

Next == \/ \E s \in Sizes, b \in BOOLEAN : Alloc(s, b)
        \/ \E r \in live : Free(r)
        \/ \E n \in GrowAmounts : Grow(n)

Spec == Init /\ [][Next]_vars

Bytes(r) == r.off..(r.off + r.size - 1)
LiveBytes == UNION {Bytes(r) : r \in live}
NoOverlap == \A r1, r2 \in live : r1 # r2 => Bytes(r1) \cap Bytes(r2) = {}
InBounds == \A r \in live : r.off >= 0 /\ r.off + r.size <= cap
Aligned == \A r \in live : r.off % r.al = 0
Partition == /\ free \cap LiveBytes = {} /\ free \cap lost = {} /\ lost \cap LiveBytes = {}
             /\ free \cup lost \cup LiveBytes = 0..(cap - 1)
Accounting == Cardinality(free) = cap - Cardinality(LiveBytes) - Cardinality(lost)
Inv == NoOverlap /\ InBounds /\ Aligned /\ Partition /\ Accounting
=============================================================================

