#!/usr/bin/env python3
"""Regenerate the table of DESIGN.md 'As built: bounds and measured sizes' from
 - the evidence files of a quick run in /verif/evidence (states / transitions / wall), and
 - the log of a thorough sweep (lines 'Cxx tier=thorough ... states=.. transitions=.. wall=..s').
usage: python3 tools/gen_asbuilt.py /root/.vp/runs/<n>/log
"""
import json
import re
import sys

BOUNDS = {
    "C01": "≈ 1 000 → ≈ 7 200 types (thorough adds all 3-field structs over leaf and level-1 representatives); 4 value alphabets incl. `long`; 30 input forms (plain data incl. rows given as views, 8 ndarray layouts incl. non-native byte order, 16 xobject sources incl. views / twins / all-dynamic class / children with spare room, string capacities, extents as int / int8 / int16); 16 placements incl. aligned buffers with an explicit offset / a tight hole; array classes made by indexing and (sub-universe) declared; twin-item process histories",
    "C02": "≈ 490 → ≈ 1 020 types in batches of 24 (incl. unit and zero extents next to dynamic ones, static fields between dynamic ones); 3 value alphabets + bytearray-backed objects + odd reference distances; every path x index tuple; relocation between the two halves of the calls; every other call compared with a rebuilt view; name-twin shards in both orders; 4 declaration styles",
    "C03": "construction as C01 (19 forms, 10 placements, complementary poisons) + histories depth 1 (2 for reference holders) → 3 on 39 → 58 types, writes through the older view; layout-twin process history",
    "C04": "240 configurations (2 kinds x 5 capacities x 6 alignments x 4 grow steps), depth 3 + allocate look-ahead (4 on 8) → depth 5 on 120 + 5/6 on 24; sizes {0,1,3,8,13,16}, grows {0,1,8}, ≤ 4 live regions; + 12 configurations with sizes given as uint8 / int8 / int16 / uint16 / int64 near the end of their range; + 1 deep configuration (depth 7 → 8) over packed / aligned requests and frees; many-growths regime",
    "C05": "as C01 with 12 forms + decode after every legal assignment (depth 1, 2 for union holders → 2) incl. a foreign member object bound again after it was modified",
    "C06": "whole universe at depth 0 + histories depth 1 → 2 incl. re-split values and whole updates of the root; long-lived handle and view (and their typed windows) read before and after every event; a copy of every reached state judged like a fresh object",
    "C07": "cffi: every other type of C02's universe (all in thorough), 6 values per float leaf (incl. 0.0 / -0.0 / 0.0) and 3 per integer leaf and index tuple, relocation every 4th call; ASan/UBSan: every accessor on exact images",
    "C08": "11 holder shapes, depth 4 (3 for two-slot holders) → 5 (4), sharded by first event; + fields declared with a default: 5 initial states x 10 events, depth 2 → 3, both default spellings",
    "C09": "39 + reference-bearing universe types + cyclic-order referents; 4 value alphabets; 7 destinations (incl. view sources); writes depth 1 → 2; a second copy from both handles after every write; declaration styles named-subclass / shared-fields; declared reference defaults (5 initial states x set / null histories x 5 ways of copying)",
    "C10": "39 → 58 types x {ramp} → {ramp, extreme} x {dirtyhole, grown} (+ grown16 for reference holders, + bytearray in thorough); depth 2 → 3; forms py / ndarray / xobject from other and same buffer / views / member objects / String objects / re-split objects (refusal expected); index kinds int8 / uint8 / int16; writes through the older view",
    "C11": "39 → 58 types x {ramp, long} (+extreme) x 2 poisons; 14 misuse classes (incl. wrong non-leading extents, re-splits, object arrays) after 0 → 1 legal steps; constructor misuse (8 argument combinations, offsets outside the buffer, refusal at a valid explicit offset, union reference from a member object) on the whole universe",
    "C12": "as C04 + TLC graph replay: 1 configuration (1 471 states, 4 524 edges) → 10 configurations (≈ 1.3 M edges)",
    "C13": "capacities 0..10 → 0..20 on fresh and on grown buffers; 10 dtypes; 12 source kinds / layouts incl. non-native byte order; growth copies from 4 allocator states; 6 → 9 boundary sizes (64 KiB .. 3 MiB +- 1) for every byte-moving primitive",
    "C14": "graphs on ≤ 3 → ≤ 4 classes over 6 node kinds (4 leaf kinds per struct node; hybrid nodes named as such), ≤ 2 → ≤ 3 `_depends_on` edges, all root subsets and orders; a sort before the declarations are completed; one sources list kept for all builds; every single root also as a kernel's return type; same-named roots",
    "C15": "as C02's universe in batches of 16; 4 targets; context-restricted lines before the accessor source; text checks in a fresh process / after plain declarations with an empty configuration / after a CPU build; OpenCL / CUDA texts executed on the host",
    "C16": "814 → ≈ 3 000 skeletons x 11 values of n x 8 execution contexts; source in a private vocabulary translated by an apply_to_source function; a piece of text listed twice; kernels built with a name / a fixed thread count; set_n_threads histories; second build with same-named included files",
    "C17": "scalar / pointer (incl. 0-d) / refusal cases x 2 contexts x 2 routes (dispatcher, kernel object); xobject arrays in both buffer kinds; histories depth 4 → 5 x {serial, OpenMP, bytearray}; re-declaration histories of one kernel name (3 signatures, depth 3 → 4)",
    "C18": "16 classes x 3-4 rename variants; depth 3 (2) → 4 (3); second holder (also bound through the constructor), move-helper, lent nested part, nested class holding a reference, union reference fields, forced offset coincidences between buffers; sharded by first event",
    "C19": "20 field variants (kind x default kind) in all 1- and 2-field classes x 3 rename variants x 3-7 values per field x 2 dictionary forms x 3 rebuild placements, the object written after its dictionary was taken; class families in 6 orders + a class defined later; 1-D reference-free universe types for JSON",
    "C20": "23 struct/array classes + 4 hybrids x 4 value alphabets x 8 groups x protocols {default, 0, 1} → + {2}; 4 context kinds (serial / OpenMP x fresh / kernels built: a kernel called before pickling and on the unpickled object); the same pickle loaded twice, second generation; writes depth 1 → 2",
}


def fmt(n):
    return f"{int(n):,}".replace(",", " ")


def main():
    log = open(sys.argv[1]).read() if len(sys.argv) > 1 else ""
    thorough = {}
    for m in re.finditer(r"(C\d\d) tier=thorough .*?states=(\d+) transitions=(\d+).*?wall=([\d.]+)s", log):
        thorough[m.group(1)] = (m.group(2), m.group(3), m.group(4))
    rows = []
    for i in range(1, 21):
        pid = "C%02d" % i
        ev = json.load(open("/verif/evidence/%s.json" % pid))
        cov = ev["coverage"]
        q = "%s / %s / %.0f s" % (fmt(cov["distinct_nontrivial"]), fmt(cov["evaluations"]), ev["wall_s"]) if ev.get("tier") == "quick" else "(run the quick tier)"
        t = thorough.get(pid)
        tt = "%s / %s / %.0f s" % (fmt(t[0]), fmt(t[1]), float(t[2])) if t else "(see evidence of a thorough run)"
        rows.append("| %s | %s | %s | %s |" % (pid, q, tt, BOUNDS[pid]))
    p = "/verif/DESIGN.md"
    s = open(p).read()
    a = s.index("| check | quick: states / transitions / wall |")
    b = s.index("### Budget")
    head = "| check | quick: states / transitions / wall | thorough: states / transitions / wall | bounds as built (quick → thorough) |\n|---|---|---|---|\n"
    s = s[:a] + head + "\n".join(rows) + "\n\n" + s[b:]
    open(p, "w").write(s)
    print("table rewritten:", len(rows), "rows; thorough numbers for", sorted(thorough))


if __name__ == "__main__":
    main()
