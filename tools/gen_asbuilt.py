#!/usr/bin/env python3
"""Regenerate the table of DESIGN.md 'As built: bounds and measured sizes' from
 - the evidence files of a quick run in /verif/evidence (states / transitions / wall), and
 - the log of a thorough sweep (lines 'Cxx tier=thorough ... states=.. transitions=.. wall=..s').
usage: python3 tools/gen_asbuilt.py /root/.vp/runs/<n>/log
"""
import json
import re
import sys

BOUNDS = {
    "C01": "≈ 1 000 → ≈ 7 200 types (thorough adds all 3-field structs over leaf and level-1 representatives); 4 value alphabets incl. `long`; 28 input forms (plain data, 8 ndarray layouts incl. non-native byte order, 15 xobject sources incl. views / twins / all-dynamic class, string capacities, extents as int / int8 / int16); 14 placements; array classes made by indexing and (sub-universe) declared; twin-item process histories",
    "C02": "≈ 470 → ≈ 1 000 types in batches of 24; 3 value alphabets + bytearray-backed objects; every path x index tuple; relocation between the two halves of the calls; every other call through a rebuilt view; name-twin shards in both orders",
    "C03": "construction as C01 (18 forms, 7 placements, complementary poisons) + histories depth 1 → 3 on 39 → 58 types",
    "C04": "240 configurations (2 kinds x 5 capacities x 6 alignments x 4 grow steps), depth 3 + allocate look-ahead (4 on 8) → depth 5 on 120 + 5/6 on 24; sizes {0,1,3,8,13,16}, grows {0,1,8}, ≤ 4 live regions; + 12 configurations with sizes given as uint8 / int8 / int16 / uint16 / int64 near the end of their range; many-growths regime",
    "C05": "as C01 with 11 forms + decode after every legal assignment (depth 1 → 2)",
    "C06": "whole universe at depth 0 + histories depth 1 → 2; long-lived handle and view read before and after every event",
    "C07": "cffi: every other type of C02's universe (all in thorough), 3 values per leaf and index tuple, relocation every 4th call; ASan/UBSan: every accessor on exact images",
    "C08": "11 holder shapes, depth 4 (3 for two-slot holders) → 5 (4), sharded by first event; + fields declared with a default: 5 initial states x 10 events, depth 2 → 3, both default spellings",
    "C09": "39 + reference-bearing universe types; 3 value alphabets; 7 destinations (incl. view sources); writes depth 1 → 2; a second copy from both handles after every write",
    "C10": "39 → 58 types x {ramp} → {ramp, extreme} x {dirtyhole, grown} (+ bytearray in thorough); depth 2 → 3; forms py / ndarray / xobject from other and same buffer / views / member objects / String objects; index kinds int8 / uint8 / int16",
    "C11": "39 → 58 types x {ramp, long} (+extreme) x 2 poisons; 13 misuse classes after 0 → 1 legal steps; constructor misuse (8 argument combinations) on the whole universe",
    "C12": "as C04 + TLC graph replay: 1 configuration (1 471 states, 4 524 edges) → 10 configurations (≈ 1.3 M edges)",
    "C13": "capacities 0..10 → 0..20; 10 dtypes; 12 source kinds / layouts incl. non-native byte order; growth copies from 4 allocator states",
    "C14": "graphs on ≤ 3 → ≤ 4 classes over 6 node kinds (incl. declared subclass of an array node), ≤ 2 → ≤ 3 `_depends_on` edges, all root subsets and orders; same-named roots",
    "C15": "as C02's universe in batches of 16; 4 targets; text checks in a fresh process and after a CPU build; OpenCL / CUDA texts executed on the host",
    "C16": "814 → ≈ 3 000 skeletons x 11 values of n x 8 execution contexts; kernels built with a name / a fixed thread count; set_n_threads histories; second build with same-named included files",
    "C17": "scalar / pointer / refusal cases x 2 contexts x 2 routes (dispatcher, kernel object); xobject arrays in both buffer kinds; histories depth 4 → 5 x {serial, OpenMP, bytearray}; calls after every event",
    "C18": "14 classes x 3 rename variants; depth 3 (2) → 4 (3); second holder, move-helper, lent nested part, nested class holding a reference; sharded by first event",
    "C19": "16 field variants (kind x default kind) in all 1- and 2-field classes x rename x 3-7 values per field x 3 rebuild placements; class families in 6 orders + a class defined later; 1-D reference-free universe types for JSON",
    "C20": "23 struct/array classes + 3 hybrids x 3 value alphabets x 8 groups x protocols {default} → {default, 2}; 4 context kinds (serial / OpenMP x fresh / kernels built); writes depth 1 → 2",
}


def fmt(n):
    return f"{int(n):,}".replace(",", " ")


def main():
    log = open(sys.argv[1]).read() if len(sys.argv) > 1 else ""
    thorough = {}
    for m in re.finditer(r"(C\d\d) tier=thorough .*?states=(\d+) transitions=(\d+).*?wall=([\d.]+)s", log):
        thorough[m.group(1)] = (m.group(2), m.group(3), m.group(4))
    rows = []
    for i in range(1, 21):
        pid = "C%02d" % i
        ev = json.load(open("/verif/evidence/%s.json" % pid))
        cov = ev["coverage"]
        q = "%s / %s / %.0f s" % (fmt(cov["distinct_nontrivial"]), fmt(cov["evaluations"]), ev["wall_s"]) if ev.get("tier") == "quick" else "(run the quick tier)"
        t = thorough.get(pid)
        tt = "%s / %s / %.0f s" % (fmt(t[0]), fmt(t[1]), float(t[2])) if t else "(see evidence of a thorough run)"
        rows.append("| %s | %s | %s | %s |" % (pid, q, tt, BOUNDS[pid]))
    p = "/verif/DESIGN.md"
    s = open(p).read()
    a = s.index("| check | quick: states / transitions / wall |")
    b = s.index("### Budget")
    head = "| check | quick: states / transitions / wall | thorough: states / transitions / wall | bounds as built (quick → thorough) |\n|---|---|---|---|\n"
    s = s[:a] + head + "\n".join(rows) + "\n\n" + s[b:]
    open(p, "w").write(s)
    print("table rewritten:", len(rows), "rows; thorough numbers for", sorted(thorough))


if __name__ == "__main__":
    main()
