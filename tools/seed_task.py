#!/usr/bin/env python3
"""Writes the task file of one seeding round: tools/seed_task.py <round number>

For every property a scratch worktree /tmp/seed<round>_<id> of /repo HEAD must exist (git -C /repo worktree add --detach ...);
the task goes to <worktree>/_seed/TASK.md.  A sub-agent is then told to read that file and nothing under /verif or /repo.
The file holds the text of the property, what is asked for, and (from round 2 on) one line per change of the earlier rounds
for the same property, so that a new round looks for another mechanism."""
import glob
import json
import os
import sys

V = os.path.dirname(os.path.dirname(os.path.abspath(__file__)))
TMPL = """# Task: seed one realistic property-breaking change into xsuite/xobjects

You work ONLY inside the git worktree `{wt}` (a checkout of the xobjects library; python: `/venv/bin/python`, run things with
`cd {wt} && PYTHONPATH={wt} /venv/bin/python ...` so that this checkout is the one imported - verify with `xobjects.__file__`).
Do not read or write anything under /verif or /repo, and do not look at other /tmp/seed* directories. No network.
IMPORTANT: never use `git stash` (the stash is shared by all worktrees of this repository and other agents work in parallel):
to get back to the unchanged tree use `git diff -- xobjects > /tmp/{tag}.p; git apply -R /tmp/{tag}.p`, and `git apply /tmp/{tag}.p` to return.

## The property (a semantic guarantee users of xobjects rely on)

**{title}**

{statement}

## What to produce

A *change to the library source* (files under `{wt}/xobjects/`, not tests) that BREAKS this property, such that

1. the library still imports and the existing test suite still passes in full:
   `cd {wt} && PYTHONPATH={wt} /venv/bin/python -m pytest -q -p no:cacheprovider --timeout=900 tests` (163 passed, a few skipped; takes ~30-60 s).
   Run it yourself and make sure; a change the suite catches is useless.
2. the breakage needs something *specific* to manifest - a particular multi-step sequence of operations, an unusual but legal input
   (shape, axis order, value, dtype, placement in the buffer, alignment, history of the buffer or of the process), or two cooperating
   edit sites that each look fine alone (e.g. a cache/memo added in one place and a missing invalidation in another; a cursor advanced at
   the wrong moment; a fast path with a subtly wrong guard).  NOT something ordinary use exposes at once, and not a crash on every call.
3. it looks like something a maintainer could plausibly write (an "optimisation", a refactoring, a tidy-up, a new fast path), ideally
   small (a few lines to a few dozen).
4. it stays strictly within what the property states: the failing scenario must use only legal inputs/operations the property
   quantifies over (only types exported by the package; no reliance on two different classes sharing one generated name, no
   out-of-range values, no private API misuse).

## Already done by earlier rounds for this property - choose a DIFFERENT mechanism, code site and trigger

{done}

Read the relevant source first (`xobjects/*.py`, `Architecture.md`, `docs/`) and choose a site that is subtle and NOT in the list
above. Prefer mechanisms less obvious than "swap two indices": state kept between calls, order of bookkeeping vs. storage
operations, special cases for sizes/alignments/emptiness/nulls, interaction between two features (references inside arrays inside
structs, views vs. handles, growth between two steps, second use in one process, copies/pickles in between, hybrid objects, both
buffer kinds, non-default alignments, several contexts).

## Deliverables (write exactly these files)

* `{wt}/_seed/patch.diff` - output of `git -C {wt} diff -- xobjects` (must apply with `git apply` to a clean checkout of the same commit).
* `{wt}/_seed/demo.py` - a small stand-alone program that exits 0 on the UNCHANGED library and exits non-zero (assert/exception)
  on the CHANGED one, demonstrating the property being broken with legal use only. It is run as
  `cd <checkout> && PYTHONPATH=<checkout> /venv/bin/python demo.py`. Verify both trees (see the git apply -R recipe above).  It must be deterministic.
* `{wt}/_seed/notes.md` - 5-15 lines: what was changed and why it looks innocent, precisely what is needed for it to manifest,
  why the existing tests do not notice.  Add, if you noticed any, side remarks about behaviour of the UNCHANGED library that seems to
  contradict the property (with a 3-line reproducer).

Leave the worktree with the change applied.  In your final message state: the one-line title of the change, what it needs to
manifest, and confirm (with the command outputs' last lines) tests = 163 passed with the change, demo rc on unchanged = 0, demo rc on changed != 0.
"""


def main():
    rnd = sys.argv[1]
    done = {}
    for f in sorted(glob.glob(os.path.join(V, "seeded", "*", "meta.json"))):
        name = f.split("/")[-2]
        m = json.load(open(f))
        done.setdefault(name[:3], []).append("- %s: needs %s" % (name[4:], (m.get("needs_to_manifest") or "")[:240]))
    for line in open(os.path.join(V, "properties.jsonl")):
        d = json.loads(line)
        wt = "/tmp/seed%s_%s" % (rnd, d["id"])
        os.makedirs(wt + "/_seed", exist_ok=True)
        with open(wt + "/_seed/TASK.md", "w") as f:
            f.write(TMPL.format(wt=wt, tag="s%s%s" % (rnd, d["id"]), title=d["title"], statement=d["statement"], done="\n".join(done.get(d["id"], ["(nothing yet)"]))))
    print("task files written for round", rnd)


main()
