#!/usr/bin/env python3
"""Evaluate one seeded change (a property-breaking edit that passes the pinned tests) against the checks.

usage: tools/seed_eval.py <dir with patch.diff and demo.py> [--checks C01,C05,...] [--keep-as <id>] [--tier quick]

Steps (all in a scratch worktree of /repo HEAD under /tmp, removed afterwards; /repo itself is never touched):
  1. demo.py on the unchanged tree must pass; 2. apply patch.diff; demo.py must fail;
  3. the pinned test suite must still pass (163); 4. every requested check is run with XOVERIF_REPO=<worktree>;
  result: which checks print VIOLATION.  With --keep-as the artefacts + meta.json go to /verif/seeded/<id>/.
"""
import argparse
import json
import os
import re
import shutil
import subprocess
import sys
import time

VERIF = os.path.dirname(os.path.dirname(os.path.abspath(__file__)))
PY = "/venv/bin/python"
ALL = ["C%02d" % i for i in range(1, 21)]


def sh(cmd, cwd=None, env=None, timeout=3600):
    e = dict(os.environ)
    if env:
        e.update(env)
    p = subprocess.run(cmd, cwd=cwd, env=e, stdout=subprocess.PIPE, stderr=subprocess.STDOUT, timeout=timeout, shell=isinstance(cmd, str))
    return p.returncode, p.stdout.decode("utf8", "replace")


def main():
    ap = argparse.ArgumentParser()
    ap.add_argument("dir")
    ap.add_argument("--checks", default=",".join(ALL))
    ap.add_argument("--keep-as")
    ap.add_argument("--tier", default="quick")
    ap.add_argument("--property", default=None)
    ap.add_argument("--needs", default="")
    ap.add_argument("--skip-tests", action="store_true")
    ap.add_argument("--json-out")
    ap.add_argument("--patch")
    ap.add_argument("--base", default="HEAD", help="commit of /repo the change was seeded on (default: current HEAD)")
    a = ap.parse_args()
    src = os.path.abspath(a.dir)
    patch = a.patch or os.path.join(src, "patch.diff")
    demo = os.path.join(src, "demo.py")
    wt = "/tmp/seedchk_%d" % os.getpid()
    meta = dict(source=src, ran=[], repo_head=sh(["git", "-C", "/repo", "rev-parse", "--short", "HEAD"])[1].strip())
    sh(["git", "-C", "/repo", "worktree", "add", "-f", "--detach", wt, a.base])
    meta["evaluated_on"] = sh(["git", "-C", wt, "rev-parse", "--short", "HEAD"])[1].strip()
    try:
        env = dict(PYTHONPATH=wt)
        have_demo = os.path.exists(demo)
        rc0, out0 = sh([PY, demo], cwd=wt, env=env, timeout=900) if have_demo else (None, "")
        meta["demo_unchanged_rc"] = rc0
        rc, out = sh(["git", "-C", wt, "apply", "--whitespace=nowarn", patch])
        if rc:  # the tree moved on since the change was seeded: three-way merge of the same edit
            rc, out = sh(["git", "-C", wt, "apply", "--3way", "--whitespace=nowarn", patch])
            meta["applied_with_3way"] = True
        if rc:
            print("PATCH DOES NOT APPLY\n" + out)
            meta["applies"] = False
            return 2
        meta["applies"] = True
        rc1, out1 = sh([PY, demo], cwd=wt, env=env, timeout=900) if have_demo else (None, "")
        meta["demo_changed_rc"] = rc1
        meta["demo_changed_tail"] = out1[-600:]
        print("demo: unchanged rc=%r, changed rc=%r" % (rc0, rc1))
        if not a.skip_tests:
            t0 = time.time()
            rct, outt = sh([PY, "-m", "pytest", "-q", "-p", "no:cacheprovider", "--timeout=900", "tests"], cwd=wt, env=env, timeout=3000)
            m = re.search(r"(\d+) passed", outt)
            meta["tests_passed"] = int(m.group(1)) if m else 0
            meta["tests_rc"] = rct
            meta["tests_tail"] = outt[-300:]
            print("tests: rc=%d passed=%s (%.0fs)" % (rct, meta["tests_passed"], time.time() - t0))
            for f in os.listdir(wt):
                if f.endswith(".so"):
                    os.remove(os.path.join(wt, f))
        caught = {}
        tmpv = "/tmp/seedchk_verif_%d" % os.getpid()
        # run the checks from a copy of /verif so that evidence/replays of the real tree are not overwritten
        shutil.copytree(VERIF, tmpv, ignore=shutil.ignore_patterns(".git", "replays", "seeded", "__pycache__"))
        try:
            for pid in a.checks.split(","):
                t0 = time.time()
                rc, out = sh([PY, "-m", "xoverif", pid, "--tier", a.tier], cwd=tmpv, env=dict(XOVERIF_REPO=wt), timeout=7200)
                viol = [l for l in out.splitlines() if l.startswith("VIOLATION")]
                harn = [l for l in out.splitlines() if l.startswith("HARNESS")]
                caught[pid] = dict(rc=rc, violations=len(viol), first=[v[:300] for v in viol[:3]], harness=harn[:2], wall=round(time.time() - t0, 1))
                print("%s rc=%d violations=%d %s %s" % (pid, rc, len(viol), viol[0][:200] if viol else "", harn[0][:120] if harn else ""))
        finally:
            shutil.rmtree(tmpv, ignore_errors=True)
        meta["checks"] = caught
        meta["caught_by"] = [p for p, c in caught.items() if c["violations"]]
        meta["property"] = a.property
        meta["needs_to_manifest"] = a.needs
        meta["ran"] = ["demo.py on unchanged and changed worktree", "pinned test suite on changed worktree", "quick checks via XOVERIF_REPO=<scratch worktree>"]
        print("CAUGHT BY:", meta["caught_by"])
        if a.json_out:
            with open(a.json_out, "w") as f:
                json.dump(meta, f, indent=1)
        if a.keep_as:
            dst = os.path.join(VERIF, "seeded", a.keep_as)
            os.makedirs(dst, exist_ok=True)
            if os.path.abspath(dst) != src:  # (a re-evaluation of a kept change reads from the directory it is kept in)
                shutil.copy(patch, os.path.join(dst, "patch.diff"))
                if have_demo:
                    shutil.copy(demo, os.path.join(dst, "demo.py"))
                if os.path.exists(os.path.join(src, "notes.md")):
                    shutil.copy(os.path.join(src, "notes.md"), os.path.join(dst, "notes.md"))
            with open(os.path.join(dst, "meta.json"), "w") as f:
                json.dump(meta, f, indent=1)
        return 0
    finally:
        sh(["git", "-C", "/repo", "worktree", "remove", "--force", wt])
        shutil.rmtree(wt, ignore_errors=True)


sys.exit(main())
