#!/usr/bin/env python3
"""Regenerates DESIGN.md section 8.1's table from /verif/seeded/*/meta.json and seeded/first_evaluation.json"""
import json, glob, os, re
V = os.path.dirname(os.path.dirname(os.path.abspath(__file__)))
fe = json.load(open(os.path.join(V, "seeded", "first_evaluation.json")))
rows = []
for f in sorted(glob.glob(os.path.join(V, "seeded", "*", "meta.json"))):
    m = json.load(open(f)); name = f.split("/")[-2]
    rows.append("| `%s` | %s | %s | %s |" % (name, m.get("needs_to_manifest", ""), " ".join(m.get("caught_by") or []) or "MISSED", fe.get(name, "caught")))
table = "\n".join(["| seeded change | needs, in order to manifest | caught by (quick tier) | first evaluation |", "|---|---|---|---|"] + rows)
p = os.path.join(V, "DESIGN.md")
s = open(p).read()
s = re.sub(r"\| seeded change \| needs.*?\n\n", lambda mo: table + "\n\n", s, count=1, flags=re.S)
open(p, "w").write(s)
print(len(rows), "rows")
