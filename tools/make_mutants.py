#!/usr/bin/env python3
"""Regenerates /verif/mutants/*.patch: hand-written property-breaking edits taken from the anchored mechanisms
(DESIGN.md 1.8).  Each edit is applied to a scratch worktree of /repo HEAD, diffed, and reverted."""
import os
import subprocess
import sys

VERIF = os.path.dirname(os.path.dirname(os.path.abspath(__file__)))
WT = "/tmp/xo_mutgen"

# id -> (properties expected to notice, file, old text, new text, description)
M = {
    "M01-string-size-from-chars": ("C01 C03 C05", "xobjects/string.py", 'size = _to_slot_size(len(data) + 1 + 8)', 'size = _to_slot_size(len(string_or_int) + 1 + 8)', "String size computed from the character count instead of the UTF-8 byte count (multi-byte text under-allocates)"),
    "M02-align-round-down": ("C04 C12", "xobjects/context.py", "return (offset + alignment - 1) & (-alignment)", "return offset & (-alignment)", "_align rounds down"),
    "M03-ref-ignores-buffer-identity": ("C08 C09", "xobjects/ref.py", "            value.__class__.__name__ == self._reftype.__name__  # same type\n            and value._buffer is buffer\n        ):", "            value.__class__.__name__ == self._reftype.__name__  # same type\n        ):", "Ref._to_buffer aliases whenever the class name matches, ignoring buffer identity"),
    "M04-struct-update-no-size-test": ("C10 C11", "xobjects/struct.py", "            and self.__class__._size is not None\n", "", "Struct._update byte-copies dynamic structs again, without comparing sizes or layouts"),
    "M05-last-fit": ("C12", "xobjects/context.py", "            for chunk in self.chunks:\n                offset = _align(chunk.start, alignment)", "            for chunk in reversed(self.chunks):\n                offset = _align(chunk.start, alignment)", "allocate scans the free list backwards (last fit)"),
    "M06-no-coalescing-of-touching": ("C12", "xobjects/context.py", "return (other.end >= self.start) and (other.start <= self.end)", "return (other.end > self.start) and (other.start < self.end)", "touching free chunks no longer merge"),
    "M07-to_native-no-copy": ("C13", "xobjects/context_cpu.py", '''    def to_native(self, offset, nbytes):
        """return native data with content at from offset and nbytes"""
        return self.buffer[offset : offset + nbytes].copy()

    def copy_to_native(self, dest, dest_offset, source_offset, nbytes):
        """copy data from self.buffer into dest"""
        dest[dest_offset : dest_offset + nbytes] = self.buffer[
            source_offset : source_offset + nbytes
        ]

    def update_from_buffer(self, offset, source):
        """Copy data from python buffer such as bytearray, bytes, memoryview, numpy array.data"""
        nbytes = memoryview(source).nbytes
        self.buffer[offset : offset + nbytes] = bytearray(source)''', '''    def to_native(self, offset, nbytes):
        """return native data with content at from offset and nbytes"""
        return self.buffer[offset : offset + nbytes]

    def copy_to_native(self, dest, dest_offset, source_offset, nbytes):
        """copy data from self.buffer into dest"""
        dest[dest_offset : dest_offset + nbytes] = self.buffer[
            source_offset : source_offset + nbytes
        ]

    def update_from_buffer(self, offset, source):
        """Copy data from python buffer such as bytearray, bytes, memoryview, numpy array.data"""
        nbytes = memoryview(source).nbytes
        self.buffer[offset : offset + nbytes] = bytearray(source)''', "BufferNumpy.to_native returns a view instead of a copy"),
    "M08-numpy-pointer-from-base": ("C17", "xobjects/context_cpu.py", "self.ffi_interface.from_buffer(slice_first_elem.data),", "self.ffi_interface.from_buffer((value.base if value.base is not None else value).data),", "NumPy pointer argument taken from the base array instead of the first element of the view"),
    "M09-wrong-stride-word": ("C02 C07 C15", "xobjects/capi.py", "stride_offset = 8 + (len(cls._dshape_idx) * 8) + (ii * 8)", "stride_offset = 8 + (len(cls._dshape_idx) * 8) + ((nd - 1 - ii if nd == 3 and len(cls._dshape_idx) == 1 else ii) * 8)", "C accessors read the stride words in reverse for 3-D arrays with exactly one dynamic axis"),
    "M10-struct-offset-table-shifted": ("C05", "xobjects/struct.py", "                for field in d_fields[1:]:\n                    field.offset = offset\n                    field.is_reference = True\n                    offset += _to_slot_size(8)\n                # first dynamic field\n                d_fields[0].offset = offset", "                offset += 8 if len(d_fields) > 2 else 0\n                for field in d_fields[1:]:\n                    field.offset = offset\n                    field.is_reference = True\n                    offset += _to_slot_size(8)\n                # first dynamic field\n                d_fields[0].offset = offset", "structs with three or more dynamic fields leave an undocumented empty slot before the offset table (writer and reader agree, round trip unaffected)"),
    "M11-view-dims-in-memory-order": ("C06 C01", "xobjects/array.py", "            shape = []\n            for dd in cls._shape:\n                if dd is None:\n                    shape.append(Int64._from_buffer(self._buffer, coffset))\n                    coffset += 8\n                else:\n                    shape.append(dd)\n            self._shape = shape", "            shape = []\n            for dd in cls._shape:\n                if dd is None:\n                    shape.append(Int64._from_buffer(self._buffer, coffset))\n                    coffset += 8\n                else:\n                    shape.append(dd)\n            if len(shape) == 3 and cls._order[0] != 0:\n                shape = [shape[io] for io in cls._order]\n            self._shape = shape", "views of 3-D dynamic arrays whose slowest axis is not axis 0 report their dimensions in memory order"),
    "M12-array-copy-short-by-a-slot": ("C09 C01", "xobjects/array.py", "            buffer.update_from_xbuffer(\n                offset, value._buffer, value._offset, value._size\n            )\n        elif value is None:", "            buffer.update_from_xbuffer(\n                offset, value._buffer, value._offset, cls._size or value._size - 8\n            )\n        elif value is None:", "binary copy of dynamic arrays copies 8 bytes too few"),
    "M13-bound-check-off-by-one": ("C11", "xobjects/array.py", "        if ii < 0 or ii >= ss:", "        if ii < 0 or ii > ss:", "index == dimension is accepted"),
    "M14-depends_on-of-discovered-ignored": ("C14", "xobjects/context.py", "        if hasattr(cls, \"_depends_on\"):\n            cls_deps.extend(cls._depends_on)", "        if hasattr(cls, \"_depends_on\") and cls.__name__ in class_by_name_at_start:\n            cls_deps.extend(cls._depends_on)", "_depends_on of classes discovered on-line is ignored"),
    "M15-one-cast-loses-gpuglmem": ("C15", "xobjects/capi.py", "        rettype = gen_pointer(ret + \"*\", conf)\n        if size == 1:", "        rettype = gen_pointer(ret + \"*\", conf) if size != 2 else ret + \"*\"\n        if size == 1:", "the dereferencing cast of 2-byte scalars loses the global-memory placeholder (CPU text unchanged)"),
    "M17-hybrid-keeps-old-dressed-child": ("C18", "xobjects/hybrid_class.py", "            setattr(container, \"_dressed_\" + self.name, dressed_new)\n", "            if not hasattr(container, \"_dressed_\" + self.name):\n                setattr(container, \"_dressed_\" + self.name, dressed_new)\n", "a by-value assignment of a hybrid object keeps the previously dressed child"),
    "M18-to_dict-type-default": ("C19", "xobjects/hybrid_class.py", "                defaults[field.name] = field.get_default()", "                defaults[field.name] = field.ftype()", "to_dict elides values equal to the type default instead of the declared default"),
    "M19-getstate-drops-offset": ("C20", "xobjects/struct.py", "        return self._buffer, self._offset\n", "        return self._buffer, 0 if self._offset < 64 else self._offset\n", "pickling forgets small non-zero offsets"),
    "M20-context-setstate-shares-buffer-set": ("C20", "xobjects/context_cpu.py", "        state.pop(\"omp_get_max_threads\", None)\n        return state", "        state.pop(\"omp_get_max_threads\", None)\n        state[\"omp_num_threads\"] = 0\n        return state", "unpickled OpenMP contexts silently become serial (not observable by the property: control mutant, expected to be missed)"),
    "M21-grow-keeps-stale-chunk-end": ("C04 C12", "xobjects/context.py", "            self.chunks[-1].end = newcapacity\n", "            self.chunks[-1].end = newcapacity if capacity else self.chunks[-1].end + 1\n", "grow(0) extends the last free chunk by one byte beyond the capacity"),
    "M22-cuda-guard-inclusive": ("C16", "xobjects/specialize_source.py", 'f"if ({varname}<{limname})" + "{"', 'f"if ({varname}<={limname})" + "{"', "CUDA guard uses <="),
}

PRE = {"M14-depends_on-of-discovered-ignored": ("xobjects/context.py", "    deps = {}\n    for cls in classes:\n        cls_deps = []", "    deps = {}\n    class_by_name_at_start = set(class_by_name)\n    for cls in classes:\n        cls_deps = []")}


def sh(*cmd, **kw):
    return subprocess.run(cmd, stdout=subprocess.PIPE, stderr=subprocess.STDOUT, **kw)


def main():
    out = os.path.join(VERIF, "mutants")
    os.makedirs(out, exist_ok=True)
    sh("git", "-C", "/repo", "worktree", "remove", "--force", WT)
    sh("git", "-C", "/repo", "worktree", "add", "-f", "--detach", WT, "HEAD")
    index = []
    try:
        for mid, (props, fn, old, new, desc) in sorted(M.items()):
            edits = [(fn, old, new)]
            if mid in PRE:
                edits.insert(0, PRE[mid])
            ok = True
            for f, o, n in edits:
                p = os.path.join(WT, f)
                s = open(p).read()
                if s.count(o) != 1:
                    print("SKIP %s: anchor text found %d times in %s" % (mid, s.count(o), f))
                    ok = False
                    break
                open(p, "w").write(s.replace(o, n))
            if ok:
                d = sh("git", "-C", WT, "diff").stdout.decode()
                open(os.path.join(out, mid + ".patch"), "w").write(d)
                index.append((mid, props, desc))
            sh("git", "-C", WT, "checkout", "--", ".")
        with open(os.path.join(out, "INDEX.tsv"), "w") as f:
            for mid, props, desc in index:
                f.write("%s\t%s\t%s\n" % (mid, props, desc))
        print(len(index), "mutants written")
    finally:
        sh("git", "-C", "/repo", "worktree", "remove", "--force", WT)


main()
