#!/usr/bin/env python3
"""Regenerates /verif/MANIFEST.json from the table below (run: python3 tools/gen_manifest.py)."""
import json, os
HERE = os.path.dirname(os.path.dirname(os.path.abspath(__file__)))
PY = "/venv/bin/python"

CHECKS = {
    "C01": dict(
        technique="exhaustive enumeration of a bounded case space (type x value x input form x placement) executed on the real constructors; read-back oracle against the value-tree model",
        text="Every type of a bounded universe (all 58 rank<=3 shape/mask/axis-order combinations over all 11 leaf kinds, all structs of 1-2 (thorough 1-3) leaf fields, second and third nesting levels over layout-signature representatives incl. references and union references) x 3 value alphabets (position-coded ramp, extremes incl. inf/nan/-0/subnormal/integer limits/multi-byte UTF-8, minimal incl. empty arrays/strings and nulls) x every applicable input form (plain data, 5 ndarray layouts, xobject from same/other buffer/context/buffer kind, nested xobjects, string capacity) x 12 placements; full read-back through every accessor incl. to_nplike/to_nparray.",
        note="Values and nesting outside the enumerated universe are not covered; the universe is exhaustive within its stated menus (xoverif/universe.py).",
        design="2/C01"),
    "C02": dict(
        technique="exhaustive enumeration of (type, object, generated access path, index tuple, accessor) executed through the real cffi build route; differential oracle against the Python accessors",
        text="Types compiled in batches through ctx.add_kernels(kernels=T._gen_kernels(), extra_classes=...); for every type x 3 value alphabets x every path of _gen_data_paths x every in-range index tuple, every generated reader (get, getp, len, typeid, member; names from capi.methods_from_path) is called on an object at a non-zero offset of a relocated buffer and compared with the Python view: value, element address (slot address for union references), length, member index, member address.",
        note="The symbolic all-indices/all-headers reading is not decided (solver territory); decided: all indices for all constructor-produced headers with extents <= 4. Distinct same-named array classes are never put in one translation unit.",
        design="2/C02"),
    "C03": dict(
        technique="exhaustive case enumeration + depth-bounded explicit-state BFS over assignment histories on the real code; byte-diff confinement oracle on traced, poisoned buffers",
        text="Construction of every universe type x forms x placements with live poisoned neighbours flush on both sides (two complementary poisons), and every history of fitting assignments (leaf / whole compound, through handle, view, nested view) up to the stated depth on the history sub-universe: changed bytes must lie inside extents the traced allocator handed out for the object; reported size == reserved extent == documented size; nested parts inside parents, siblings disjoint.",
        note="Buffer tracing is done by harness subclasses of the CPU buffers (no hook in /repo).",
        design="2/C03"),
    "C05": dict(
        technique="exhaustive case enumeration; independent documented-layout decoder (reference model) applied to the raw bytes of every constructed object",
        text="For every universe type x value x {plain data, ndarray C/F, capacity, xobject copy} x placement, a decoder written only from the documentation recovers the value from raw bytes, with every size word, offset table (memory order), stride, NUL padding, reference encoding and slot boundary checked.",
        note="The decoder is the harness's reading of Architecture.md / docs/architecture/types.rst.",
        design="2/C05"),
    "C06": dict(
        technique="exhaustive case enumeration + depth-bounded explicit-state BFS over write histories; differential oracle handle vs rebuilt view at every nesting level",
        text="After construction (whole universe) and after every write event (history sub-universe, depth 2 quick / 3 thorough) the view rebuilt from (buffer, offset) and the rebuilt view of every nested compound agree with the constructor-side handles on value at every index, shape, strides, size, item/field offsets and cached structure.",
        note="Stand-alone union references are compared through their target.",
        design="2/C06"),
    "C07": dict(
        technique="exhaustive enumeration of setter calls (history per object) through cffi with full Python re-read, plus execution of every generated accessor on exact-size malloc images under ASan+UBSan (fault oracle) with byte-diff confinement and independent final-image decoding",
        text="(a) every scalar-leaf path x every in-range index tuple x {other value, type min, type max} through the cffi-built setters, whole object re-read after each call; (b) stand-alone clang -fsanitize=address,undefined build of the emitted source with uniform wrappers: every accessor x every index tuple on the exact buffer image (object flush against the end of its allocation), no sanitizer report, results equal to Python's, readers change nothing, setters change only their element, final image decodes to the expected value tree.",
        note="Calls through null references are not made; a worker killed by a signal inside an accessor is reported as a violation with the last call.",
        design="2/C07"),
    "C08": dict(
        technique="explicit-state BFS (replay-based) over reference-binding histories on real holders and buffers against a heap-graph reference model",
        text="8 holder shapes (struct/array/stand-alone, Ref/UnionRef, static/dynamic targets, nested holder) in a small traced growing buffer with two same-buffer objects, one other-member object and one foreign-buffer object; all histories to depth 4/3 (quick) or 6/5 (thorough) over the property's eight event kinds; on every transition: null encodings, alias = same offset, copies = fresh extents allocated in that transition, member index/type, relative offset words, liveness of the target allocation, values of all targets and originals (visibility and independence), before and after growth.",
        note="Object identity in the model is (buffer, offset) of a traced live allocation.",
        design="2/C08"),
    "C09": dict(
        technique="exhaustive case enumeration + depth-bounded BFS over single writes on either side, on real objects; value-tree model with explicit sharing rule",
        text="T(src, ...) for the history sub-universe and the reference-bearing universe types x {refs fresh, null, alternating members} x {same buffer, other buffer, other context via buffer or _context, other buffer kind}: equal values, source intact, storage disjoint, referents shared in the same buffer and duplicated inside the copy's buffer otherwise (every part inside a live allocation of that buffer); then every single write (thorough: every pair) of a leaf on either side shows only where the model says.",
        note="Aliasing between two references inside one source object is not enumerated.",
        design="2/C09"),
    "C10": dict(
        technique="explicit-state BFS (replay-based, deduplicated on buffer bytes + model) over assignment/growth histories on the real objects against a value-tree reference model",
        text="From every validated object of the history sub-universe, all histories up to depth 2 (quick) / 3 (thorough) over {set leaf, set whole nested struct/array of equal size from plain data / ndarray / xobject, grow buffer} x {handle, view, nested view}; after every transition full re-read == model updated at that path only, structural snapshot unchanged, changed bytes inside the assigned element.",
        note="Fitting = same layout for whole-compound assignment; strings up to the slot capacity fixed at creation.",
        design="2/C10"),
    "C11": dict(
        technique="exhaustive enumeration of the property's misuse classes at every element position (after every legal one-step history in the thorough tier, and after every other refused misuse), executed on the real objects; raise + unchanged-value oracle",
        text="Every out-of-range index (each axis x {-1, dim, dim+1}, read and write), wrong-length / reshaping whole-array update, over-long string (+1 byte, +1 slot, +64), same-length list with a larger dynamic item, non-member union value, on every array/string/union position of the history sub-universe with live neighbours; constructor misuse (_buffer of another context with _context, _offset without _buffer) on the whole universe. Must raise; victim and neighbours re-read unchanged. Refusals as a history: every misuse of the menu is also applied in the world in which another misuse has just been refused (all pairs in the thorough tier).",
        note="Only the misuse classes named by the property are demanded to raise.",
        design="2/C11"),

    "C04": dict(
        technique="explicit-state BFS over allocate/free/grow histories on the real XBuffer; invariant oracle on every transition",
        text="All histories of allocate/free/grow up to the stated depth on 240 buffer configurations (2 CPU buffer kinds x initial capacity x default alignment x grow_step), executed on the real XBuffer; in-bounds, alignment, disjointness and data preservation (unique tags re-read after every step, also across relocating growth) checked on every transition. Exhaustive within the bounds.",
        note="Trusted: the harness's tag writer/reader use update_from_buffer/to_bytearray of the same buffer (their own correctness is C13's business); states are merged on a generic snapshot of the allocator attributes.",
        design="2/C04"),
    "C12": dict(
        technique="explicit-state BFS on the real XBuffer in lock step with a byte-map first-fit specification (reference model), plus TLC model graph replay in the thorough tier",
        text="Same exhaustive history space as C04, judged step by step against an independent byte-map specification: first-fit placement, growth only when nothing fits, capacity monotone, every request returns, free never raises, get_free() equals free bytes of the map; coalescing decided behaviourally one step later (the look-ahead layer asks every allocation once more after the last level).",
        note="Growth amount is left to the implementation (not part of the property); zero-size requests are not compared for placement.",
        design="2/C12"),
    "C13": dict(
        technique="exhaustive enumeration of (buffer kind, capacity, offset, length, primitive, dtype, source layout) with depth-2 follow-up mutations, on the real buffers against a bytearray model",
        text="Both CPU buffer kinds x capacity 0..16 (thorough 0..33) x every (offset,length) x every copying primitive and source kind/layout/dtype; poisoned background; storage read back directly; extracted copies independent, typed views aliasing (both directions).",
        note="Requests outside the capacity are not part of the property.",
        design="2/C13"),
    "C14": dict(
        technique="exhaustive enumeration of dependency graphs (node kinds x structural edges x _depends_on edges) x root subsets x root orders on real classes; closure/once/order oracle against a graph model, compiler and cffi acceptance, real builds",
        text="All graphs on <= 3 (thorough <= 4) named classes over {struct with fields, field-less struct, array of, union reference of, hybrid class} with by-value / Ref / item / member edges and up to 2-3 arbitrary _depends_on edges (forward edges close cycles) x every non-empty root subset in every order: sort_classes output == transitive closure, every class once, dependencies first; assembled source has one XOBJ_TYPEDEF block per class and passes gcc -fsyntax-only; declarations pass cffi.FFI().cdef; real ctx.add_kernels for the small graphs; every cyclic graph raises ValueError.",
        note="Class names are unique inside a graph.",
        design="2/C14"),
    "C15": dict(
        technique="exhaustive enumeration of (type, target): token-stream comparison of the four specialisations, address-space qualifier scan, compiler acceptance, and host EXECUTION of the real OpenCL text (clang -x cl) and CUDA text (g++) for every path/index/object against the Python view",
        text="For every type of the C02 universe: identical token streams modulo qualifier tokens across cpu_serial/cpu_openmp/opencl/cuda; every pointer type of the OpenCL text carries __global and the text passes clang -x cl -cl-std=CL1.2; all forms pass gcc/g++ with keywords defined away; OpenCL and CUDA forms are executed on the host for every accessor x index tuple x object and agree with Python (values, addresses, lengths, member ids; setters confined).",
        note="Host compilers stand in for device compilers.",
        design="2/C15"),
    "C16": dict(
        technique="exhaustive enumeration of well-formed annotated kernel skeletons x n x launch geometry, each built and EXECUTED on all four targets (real ContextCpu serial/OpenMP; real ContextCupy / ContextPyopencl code over device stubs that run host builds of the real specialised text); counter/marker oracle",
        text="All skeletons over the annotation vocabulary (prefix lines: plain, #define only_for_context X, include_file for_context X, gpufun helper with gpuglmem/restrict; 1-2 vectorised blocks in both spellings; bodies of counter increments, context-restricted marker stores, helper calls; X over 7 context sets) x n in {0,1,2,3,5,8,9,255,256,257,513} x CUDA block sizes {1,2,4,256}: per-index counters exactly once on [0,n), zero on a guard band, context restrictions active exactly where named, unannotated text verbatim and in order, all targets agree.",
        note="GPU compilers/schedulers are replaced by clang -x cl / g++ host builds driven sequentially; statements outside blocks are idempotent and compared for n >= 1.",
        design="2/C16"),
    "C17": dict(
        technique="exhaustive case enumeration (kinds x extremes x views x refusals) plus explicit-state BFS over {create object, grow, free} histories with every live object passed to address-reporting kernels at every state, through the real cffi kernel call path",
        text="Identity and store kernels for the 10 scalar kinds x type extremes (bit patterns), 100 arity-3 kernels mixing a by-value scalar, an xobject and a pointer; NumPy pointer arguments as whole / offset slice / strided / 2-D sub-block / reversed / F-order views and xobject arrays (address and value of the first element); refusals (positional, missing, extra, misnamed, wrong element dtype); histories to depth 4 (5) of object creation (struct, dynamic struct, array, union reference; aligned/packed), growth and free: pointer == current base + offset and content read in C == Python, serial and OpenMP contexts.",
        note="Values not representable in the declared C type and empty pointer arrays are outside the property.",
        design="2/C17"),
    "C18": dict(
        technique="explicit-state BFS (replay-based) over hybrid-object histories on real HybridClass objects against a value/sharing model; mirror oracle at every state, exploration continues after refusals",
        text="10 hybrid class definitions x 3 rename variants; events {set scalar/string, set array whole/element, nested assignment from dict / hybrid of same or other buffer, reference assignment same buffer / other buffer (MemoryError) / None, copy to same buffer / other buffer / other context, move (top level; nested and ref-holding refused), write through a dressed child, mutate the source}; depth 3 (4): attribute == _xobject field == model for every field at every nesting level, dressed child _xobject is the container's field, copies independent, references shared, moved parts in the target buffer.",
        note="By-value assignments use fitting values.",
        design="2/C18"),
    "C19": dict(
        technique="exhaustive enumeration of hybrid class definitions (field kind x default kind x rename) x value choices, and of reference-free 1-D-array types x values, on the real to_dict/from_dict/_to_json code; round-trip and elision oracle",
        text="Every 1-2 field hybrid class over {Int64, Float64, String, Float64[3], Int32[:], nested hybrid} x {no default, default=, default_factory=} x {no rename, first field renamed} x {equal to default, different, zero, empty}: from_dict(to_dict()) equal on every field, dictionary JSON-encodable, field with declared default absent iff equal to it; T(x._to_json()) == x for every reference-free universe type whose arrays are all 1-D x 3 value alphabets (raw and JSON-decoded form).",
        note="N-D arrays are outside the property.",
        design="2/C19"),
    "C20": dict(
        technique="exhaustive case enumeration (importable types x values x buffer-sharing groups) + depth-bounded BFS over writes on either side and allocations on the unpickled buffer, on real pickle round trips; value model + byte-map allocator model",
        text="23 importable struct/array-subclass classes (incl. >= 2 dynamic fields, nested, references) and 3 hybrid classes x 3 value alphabets x 5 groups (1-3 objects over 1-2 buffers, both buffer kinds): equal values through every accessor, structure accessors usable, sharing preserved exactly, independence under every single write (thorough: pairs) on either side, unpickled buffer allocates first-fit without touching the unpickled objects.",
        note="Kernels are not pickled; the unpickled context is a fresh serial context.",
        design="2/C20"),
}

NOT_APPLICABLE = {}

def main():
    props = [json.loads(l) for l in open(os.path.join(HERE, "properties.jsonl"))]
    checks = []
    na = []
    for p in props:
        pid = p["id"]
        if pid in CHECKS:
            c = CHECKS[pid]
            checks.append(dict(
                property_id=pid,
                quick_cmd=f"{PY} -m xoverif {pid} --tier quick",
                thorough_cmd=f"{PY} -m xoverif {pid} --tier thorough",
                evidence_file=f"/verif/evidence/{pid}.json",
                replay_cmd_template=f"{PY} -m xoverif.replay {{path}}",
                engine="xoverif",
                level_claimed=dict(category="model_checking", text=c["text"], design_ref="DESIGN.md §" + c["design"]),
                level_note=c["note"],
                technique=c["technique"],
            ))
        else:
            na.append(dict(property_id=pid, reason=NOT_APPLICABLE.get(pid, "check not built yet in this revision of /verif (planned, see DESIGN.md §2); not claimed until its command exists")))
    m = dict(
        version=1,
        setup_cmd="cd /verif && /venv/bin/python -m xoverif.setup",
        hooks=dict(guard="XOBJECTS_VERIF", enable="none needed: no instrumentation inside /repo; checks import /repo's working tree directly (editable install)",
                   baseline_off_cmd="cd /repo && /venv/bin/python -m pytest -ra -q -p no:cacheprovider --timeout=900 --continue-on-collection-errors",
                   source_commits=[], add_only=True),
        engines=[dict(name="xoverif", path="/verif/xoverif", serves_properties=sorted(CHECKS), kind_free_text="hand-written explicit-state explorer (Python): replays event histories on the real xobjects code against reference models; exhaustive within stated bounds")],
        checks=checks,
        not_applicable=na,
        notes="See DESIGN.md. Genuine defects found are listed in known_findings.json (status fixed => `fix:` commit in /repo; status open => reported as KNOWN-FINDING).",
    )
    json.dump(m, open(os.path.join(HERE, "MANIFEST.json"), "w"), indent=1)
    print("checks:", len(checks), "not_applicable:", len(na))

main()
