#!/usr/bin/env python3
"""Regenerates /verif/MANIFEST.json from the table below (run: python3 tools/gen_manifest.py)."""
import json, os
HERE = os.path.dirname(os.path.dirname(os.path.abspath(__file__)))
PY = "/venv/bin/python"

CHECKS = {
    "C04": dict(
        technique="explicit-state BFS over allocate/free/grow histories on the real XBuffer; invariant oracle on every transition",
        text="All histories of allocate/free/grow up to the stated depth on 240 buffer configurations (2 CPU buffer kinds x initial capacity x default alignment x grow_step), executed on the real XBuffer; in-bounds, alignment, disjointness and data preservation (unique tags re-read after every step, also across relocating growth) checked on every transition. Exhaustive within the bounds.",
        note="Trusted: the harness's tag writer/reader use update_from_buffer/to_bytearray of the same buffer (their own correctness is C13's business); states are merged on a generic snapshot of the allocator attributes.",
        design="2/C04"),
    "C12": dict(
        technique="explicit-state BFS on the real XBuffer in lock step with a byte-map first-fit specification (reference model), plus TLC model graph replay in the thorough tier",
        text="Same exhaustive history space as C04, judged step by step against an independent byte-map specification: first-fit placement, growth only when nothing fits, capacity monotone, every request returns, free never raises, get_free() equals free bytes of the map; coalescing decided behaviourally one step later (the look-ahead layer asks every allocation once more after the last level).",
        note="Growth amount is left to the implementation (not part of the property); zero-size requests are not compared for placement.",
        design="2/C12"),
}

NOT_APPLICABLE = {}

def main():
    props = [json.loads(l) for l in open(os.path.join(HERE, "properties.jsonl"))]
    checks = []
    na = []
    for p in props:
        pid = p["id"]
        if pid in CHECKS:
            c = CHECKS[pid]
            checks.append(dict(
                property_id=pid,
                quick_cmd=f"{PY} -m xoverif {pid} --tier quick",
                thorough_cmd=f"{PY} -m xoverif {pid} --tier thorough",
                evidence_file=f"/verif/evidence/{pid}.json",
                replay_cmd_template=f"{PY} -m xoverif.replay {{path}}",
                engine="xoverif",
                level_claimed=dict(category="model_checking", text=c["text"], design_ref="DESIGN.md §" + c["design"]),
                level_note=c["note"],
                technique=c["technique"],
            ))
        else:
            na.append(dict(property_id=pid, reason=NOT_APPLICABLE.get(pid, "check not built yet in this revision of /verif (planned, see DESIGN.md §2); not claimed until its command exists")))
    m = dict(
        version=1,
        setup_cmd="cd /verif && /venv/bin/python -m xoverif.setup",
        hooks=dict(guard="XOBJECTS_VERIF", enable="none needed: no instrumentation inside /repo; checks import /repo's working tree directly (editable install)",
                   baseline_off_cmd="cd /repo && /venv/bin/python -m pytest -ra -q -p no:cacheprovider --timeout=900 --continue-on-collection-errors",
                   source_commits=[], add_only=True),
        engines=[dict(name="xoverif", path="/verif/xoverif", serves_properties=sorted(CHECKS), kind_free_text="hand-written explicit-state explorer (Python): replays event histories on the real xobjects code against reference models; exhaustive within stated bounds")],
        checks=checks,
        not_applicable=na,
        notes="See DESIGN.md. Genuine defects found are listed in known_findings.json (status fixed => `fix:` commit in /repo; status open => reported as KNOWN-FINDING).",
    )
    json.dump(m, open(os.path.join(HERE, "MANIFEST.json"), "w"), indent=1)
    print("checks:", len(checks), "not_applicable:", len(na))

main()
