#!/usr/bin/env python3
"""Re-evaluates every kept seeded change (/verif/seeded/<id>/) from scratch: demo on the unchanged and on the changed tree, the pinned
test suite on the changed tree, then the quick checks of the property it breaks and of the checks that caught it before.
usage: tools/seed_reeval.py [id-substring ...]"""
import json, os, subprocess, sys
VERIF = os.path.dirname(os.path.dirname(os.path.abspath(__file__)))
sd = os.path.join(VERIF, "seeded")
for name in sorted(os.listdir(sd)):
    if sys.argv[1:] and not any(a in name for a in sys.argv[1:]):
        continue
    d = os.path.join(sd, name)
    meta = json.load(open(os.path.join(d, "meta.json")))
    if meta.get("void_since"):
        print("==", name, "(void since %s: skipped)" % meta["void_since"])
        continue
    prop = meta.get("property") or name.split("-")[0]
    checks = [prop] + [c for c in meta.get("caught_by", []) if c != prop]
    cmd = [sys.executable, os.path.join(VERIF, "tools", "seed_eval.py"), d, "--checks", ",".join(checks), "--property", prop, "--needs", meta.get("needs_to_manifest", ""), "--keep-as", name]
    p = subprocess.run(cmd, stdout=subprocess.PIPE, stderr=subprocess.STDOUT)
    out = p.stdout.decode()
    # a patch that no longer applies is NOT evaluated on the older tree it was written for: the checks have learnt since to flag
    # defects of that older tree (repaired meanwhile), which would be credited to the seeded change.  Re-express the patch instead
    # (keep the original as patch.as-seeded.diff).
    print("==", name)
    print("\n".join(l[:200] for l in out.splitlines() if l.startswith(("demo", "tests", "CAUGHT", "PATCH")) or l[:3] in ("C%02d" % i for i in range(21))))
