#!/usr/bin/env python3
"""Runs every /verif/mutants/*.patch through tools/seed_eval.py (pinned tests must still pass; the checks named in
INDEX.tsv plus any given with --also must report a VIOLATION) and writes mutants/RESULTS.md."""
import json, os, subprocess, sys, tempfile
VERIF = os.path.dirname(os.path.dirname(os.path.abspath(__file__)))
rows = [l.rstrip("\n").split("\t") for l in open(os.path.join(VERIF, "mutants", "INDEX.tsv"))]
only = sys.argv[1:] 
out = []
for mid, props, desc in rows:
    if only and not any(o in mid for o in only):
        continue
    jf = tempfile.mktemp(suffix=".json")
    cmd = [sys.executable, os.path.join(VERIF, "tools", "seed_eval.py"), os.path.join(VERIF, "mutants"), "--patch", os.path.join(VERIF, "mutants", mid + ".patch"), "--checks", ",".join(props.split()), "--json-out", jf]
    p = subprocess.run(cmd, stdout=subprocess.PIPE, stderr=subprocess.STDOUT)
    print(mid, p.stdout.decode()[-600:])
    try:
        m = json.load(open(jf)); os.remove(jf)
    except Exception:
        m = {}
    out.append((mid, props, desc, m))
with open(os.path.join(VERIF, "mutants", "RESULTS.md"), "w" if not only else "a") as f:
    if not only:
        f.write("# Hand-written mutants (tools/make_mutants.py) against the quick checks\n\n| mutant | pinned tests | expected | caught by | description |\n|---|---|---|---|---|\n")
    for mid, props, desc, m in out:
        f.write("| %s | %s passed | %s | %s | %s |\n" % (mid, m.get("tests_passed"), props, " ".join(m.get("caught_by", [])) or "MISSED", desc))
